/* C42 — event_tagging.c: encode/decode round trip and decoder safety on arbitrary bytes,
 * every input split across evbuffer chains in every way.  Each chain is an
 * evbuffer_add_reference() piece living in its own exactly-sized heap block, so a
 * decoder reading one byte past the contiguous data it asked for is seen by ASan.
 *
 * -P part=1  round trip of catalogue values through every marshal/unmarshal pair, all splits
 * -P part=2  sweep: every tag / 32-bit integer value in a range (all 2^32 with sweepbits=32)
 * -P part=3  arbitrary byte strings: all strings of length <= alen over an abits-value alphabet (all splits)
 *            and of length alen+1..blen over a 4|5-value alphabet (<= 2 cuts); -P all3=1: all 2^16 2-byte strings, each also extended by the 32 alphabet bytes
 * Reference codec (from the wire-format comment of event_tagging.c):
 *   Tag = HByte* LByte, 7 bits per byte least significant first, at most 32 bits;
 *   Integer = first nibble = number of nibbles - 1, then the nibbles least significant first, padded to a byte;
 *   Item = Tag Integer(length) Data.
 */
#include "mcx.h"
/* small ASan quarantine: freed blocks are reused quickly instead of every malloc touching fresh pages (20-40x faster here) */
const char *__asan_default_options(void) { return "quarantine_size_mb=4:thread_local_quarantine_size_kb=64"; }
#include <stdio.h>
#include <stdlib.h>
#include <string.h>
#include <sys/time.h>
#include "event2/event.h"
#include "event2/buffer.h"
#include "event2/tag.h"

int evtag_decode_int(ev_uint32_t *pnumber, struct evbuffer *evbuf);
int evtag_decode_int64(ev_uint64_t *pnumber, struct evbuffer *evbuf);
int evtag_encode_tag(struct evbuffer *evbuf, ev_uint32_t tag);
int evtag_decode_tag(ev_uint32_t *ptag, struct evbuffer *evbuf);

#define ONCE(f) (!(f)++)
typedef unsigned char u8;

/* ------------------------------------------------------------ reference codec */
static int ref_tag(const u8 *b, int n, uint32_t *tag)
{
	uint32_t v = 0;
	for (int i = 0; i < n && i < 5; i++) {
		unsigned lo = b[i] & 0x7f;
		if (i == 4 && lo > 15) return -1;
		v |= (uint32_t)lo << (7 * i);
		if (!(b[i] & 0x80)) { *tag = v; return i + 1; }
	}
	return -1;
}
static int ref_int(const u8 *b, int n, int maxnib, uint64_t *val)
{
	if (n < 1) return -1;
	int nib = (b[0] >> 4) + 1, used = nib / 2 + 1;
	if (nib > maxnib || used > n) return -1;
	uint64_t v = 0;
	for (int j = 0; j < nib; j++) {           /* nibble m = j + 1 of the byte string: byte m/2, low half when m is odd */
		int m = j + 1; unsigned x = (m & 1) ? (b[m / 2] & 0x0f) : (b[m / 2] >> 4);
		v |= (uint64_t)x << (4 * j);
	}
	*val = v;
	return used;
}
static int enc_tag(u8 *out, uint32_t t) { int n = 0; do { u8 lo = t & 0x7f; t >>= 7; if (t) lo |= 0x80; out[n++] = lo; } while (t); return n; }
static int enc_int(u8 *out, uint64_t v)
{
	int nib = 0; uint64_t x = v; while (x) { nib++; x >>= 4; } if (!nib) nib = 1;
	int used = nib / 2 + 1; memset(out, 0, used);
	out[0] = (u8)((nib - 1) << 4);
	for (int j = 0; j < nib; j++) { int m = j + 1; unsigned d = (v >> (4 * j)) & 0xf; out[m / 2] |= (m & 1) ? d : d << 4; }
	return used;
}
struct ritem { int t_ok, tl; uint32_t tag; int h_ok, hdr; uint32_t len; int complete; };
static void ref_item(const u8 *b, int n, struct ritem *r)
{
	uint64_t v;
	memset(r, 0, sizeof *r);
	r->tl = ref_tag(b, n, &r->tag); r->t_ok = r->tl > 0;
	if (!r->t_ok) return;
	int ll = ref_int(b + r->tl, n - r->tl, 8, &v);
	if (ll < 0) return;
	r->h_ok = 1; r->hdr = r->tl + ll; r->len = (uint32_t)v;
	r->complete = (uint64_t)(n - r->hdr) >= v;
}

/* ------------------------------------------------------------ buffers made of exact-size pieces */
#define MAXPIECE 24
static u8 *pool[MAXPIECE][40];
static u8 *pool_blk(int piece, int len) { if (!pool[piece][len]) pool[piece][len] = malloc(len); return pool[piece][len]; }

/* lay the bytes out as pieces (cut after byte i when bit i of cuts is set); returns number of pieces */
static int NP; static u8 *PP[MAXPIECE]; static int PL[MAXPIECE];
static void lay_out(const u8 *b, int n, unsigned cuts)
{
	NP = 0;
	int start = 0;
	for (int i = 0; i < n; i++)
		if (i == n - 1 || (cuts >> i & 1)) {
			int l = i + 1 - start;
			PP[NP] = pool_blk(NP, l); memcpy(PP[NP], b + start, l); PL[NP] = l; NP++;
			start = i + 1;
		}
}
static struct evbuffer *mkbuf(void)
{
	struct evbuffer *e = evbuffer_new();
	for (int i = 0; i < NP; i++) evbuffer_add_reference(e, PP[i], PL[i], NULL, NULL);
	return e;
}

/* after a call: what is left must be the tail of the original bytes; returns bytes left or -1 */
static int left_is_suffix(struct evbuffer *e, const u8 *b, int n)
{
	size_t rem = evbuffer_get_length(e);
	static u8 tmp[1 << 17];
	if (rem > (size_t)n) return -1;
	if (rem && (evbuffer_copyout(e, tmp, rem) != (ev_ssize_t)rem || memcmp(tmp, b + n - rem, rem))) return -1;
	return (int)rem;
}

/* ------------------------------------------------------------ decoders on arbitrary bytes */
enum { D_TAG, D_PEEK, D_INT, D_INT64, D_PEEKLEN, D_PAYLEN, D_HEADER, D_CONSUME, D_UNMARSHAL, D_UINT, D_UINT64, D_FIXED, D_STRING, D_TIMEVAL, ND };
static const char *DN[ND] = { "decode_tag", "peek", "decode_int", "decode_int64", "peek_length", "payload_length", "unmarshal_header", "consume", "unmarshal",
	"unmarshal_int", "unmarshal_int64", "unmarshal_fixed", "unmarshal_string", "unmarshal_timeval" };
static int rep[ND][8];
enum { R_ACCEPT, R_VALUE, R_CONSUMED, R_ONFAIL, R_CORRUPT, R_WRONGTAG, R_RET };
static uint64_t c_runs, c_ok[ND], c_fail[ND], c_ref_ok_impl_fail, c_fail_consumed;

static void hex(char *o, const u8 *b, int n, unsigned cuts) { for (int i = 0; i < n; i++) { o += sprintf(o, "%02x", b[i]); if (i < n - 1 && (cuts >> i & 1)) *o++ = '|'; } *o = 0; }

#define FAIL(d, r, what, ...) do { if (ONCE(rep[d][r])) { char key_[96], hx_[200]; hex(hx_, b, n > 60 ? 60 : n, cuts); snprintf(key_, sizeof key_, "C42/%s/%s", DN[d], what); \
	char m_[400]; snprintf(m_, sizeof m_, __VA_ARGS__); mc_fail(key_, "bytes %s: %s", hx_, m_); } } while (0)

/* run decoder d on the laid-out bytes; wrongtag: ask for another tag than the one present */
static void run_decoder(int d, const u8 *b, int n, unsigned cuts, const struct ritem *R, int wrongtag)
{
	struct evbuffer *e = mkbuf(), *dst = NULL;
	uint32_t tag = 0xdeadbeef, v32 = 0xdeadbeef, need = wrongtag ? R->tag ^ 1 : R->tag; uint64_t v64 = 0xdeadbeefdeadbeefULL, rv; struct timeval tv = { -7, -7 };
	int ret = -99, ok, exp_ok = 0, exp_used = 0, strict_fail = 0, never_consumes = 0;
	const u8 *pay = b + R->hdr;
	c_runs++;
	switch (d) {
	case D_TAG: ret = evtag_decode_tag(&tag, e); ok = ret != -1; exp_ok = R->t_ok; exp_used = R->tl; strict_fail = 1;
		if (ok && exp_ok && (ret != R->tl || tag != R->tag)) FAIL(d, R_VALUE, "wrong-value", "returned %d tag %#x, reference %d tag %#x", ret, tag, R->tl, R->tag); break;
	case D_PEEK: ret = evtag_peek(e, &tag); ok = ret != -1; exp_ok = R->t_ok; exp_used = 0; never_consumes = 1;
		if (ok && exp_ok && (ret != R->tl || tag != R->tag)) FAIL(d, R_VALUE, "wrong-value", "returned %d tag %#x, reference %d tag %#x", ret, tag, R->tl, R->tag); break;
	case D_INT: { int u = ref_int(b, n, 8, &rv); ret = evtag_decode_int(&v32, e); ok = ret != -1; exp_ok = u > 0; exp_used = u; strict_fail = 1;
		if (ok && exp_ok && (ret != 0 || v32 != (uint32_t)rv)) FAIL(d, R_VALUE, "wrong-value", "returned %d value %#x, reference %#llx", ret, v32, (unsigned long long)rv); break; }
	case D_INT64: { int u = ref_int(b, n, 16, &rv); ret = evtag_decode_int64(&v64, e); ok = ret != -1; exp_ok = u > 0; exp_used = u; strict_fail = 1;
		if (ok && exp_ok && (ret != 0 || v64 != rv)) FAIL(d, R_VALUE, "wrong-value", "returned %d value %#llx, reference %#llx", ret, (unsigned long long)v64, (unsigned long long)rv); break; }
	case D_PEEKLEN: ret = evtag_peek_length(e, &v32); ok = ret != -1; exp_ok = R->h_ok; never_consumes = 1;
		if (ok && exp_ok && (ret != 0 || v32 != (uint32_t)(R->len + R->hdr))) FAIL(d, R_VALUE, "wrong-value", "length %u, reference %u", v32, R->len + R->hdr); break;
	case D_PAYLEN: ret = evtag_payload_length(e, &v32); ok = ret != -1; exp_ok = R->h_ok; never_consumes = 1;
		if (ok && exp_ok && (ret != 0 || v32 != R->len)) FAIL(d, R_VALUE, "wrong-value", "length %u, reference %u", v32, R->len); break;
	case D_HEADER: ret = evtag_unmarshal_header(e, &tag); ok = ret != -1; exp_ok = R->complete; exp_used = R->hdr;
		if (ok && exp_ok && ((uint32_t)ret != R->len || tag != R->tag)) FAIL(d, R_VALUE, "wrong-value", "returned %d tag %#x, reference length %u tag %#x", ret, tag, R->len, R->tag); break;
	case D_CONSUME: ret = evtag_consume(e); ok = ret != -1; exp_ok = R->complete; exp_used = R->hdr + R->len;
		if (ok && ret != 0) FAIL(d, R_RET, "wrong-return", "returned %d", ret); break;
	case D_UNMARSHAL: dst = evbuffer_new(); evbuffer_add(dst, "xy", 2); ret = evtag_unmarshal(e, &tag, dst); ok = ret != -1; exp_ok = R->complete; exp_used = R->hdr + R->len;
		if (ok && exp_ok) { size_t dl = evbuffer_get_length(dst); u8 *dp = evbuffer_pullup(dst, -1);
			if ((uint32_t)ret != R->len || tag != R->tag || dl != 2 + (size_t)R->len || memcmp(dp, "xy", 2) || memcmp(dp + 2, pay, R->len)) FAIL(d, R_VALUE, "wrong-value", "returned %d tag %#x, %zu bytes appended; reference %u tag %#x", ret, tag, dl - 2, R->len, R->tag); }
		break;
	case D_UINT: { int u = R->complete ? ref_int(pay, n - R->hdr, 8, &rv) : -1; ret = evtag_unmarshal_int(e, need, &v32); ok = ret != -1;
		exp_ok = !wrongtag && R->complete && u > 0 && (uint32_t)u <= R->len; exp_used = R->hdr + R->len;
		if (ok && exp_ok && (ret != u || v32 != (uint32_t)rv)) FAIL(d, R_VALUE, "wrong-value", "returned %d value %#x, reference %d value %#llx", ret, v32, u, (unsigned long long)rv); break; }
	case D_UINT64: { int u = R->complete ? ref_int(pay, n - R->hdr, 16, &rv) : -1; ret = evtag_unmarshal_int64(e, need, &v64); ok = ret != -1;
		exp_ok = !wrongtag && R->complete && u > 0 && (uint32_t)u <= R->len; exp_used = R->hdr + R->len;
		if (ok && exp_ok && (ret != u || v64 != rv)) FAIL(d, R_VALUE, "wrong-value", "returned %d value %#llx, reference %d value %#llx", ret, (unsigned long long)v64, u, (unsigned long long)rv); break; }
	case D_FIXED: { size_t want = R->complete ? R->len : 3; if (wrongtag == 2) { want++; need = R->tag; }
		u8 *out = malloc(want ? want : 1); memset(out, 0x5a, want ? want : 1);
		ret = evtag_unmarshal_fixed(e, need, want ? out : NULL, want); ok = ret != -1; exp_ok = !wrongtag && R->complete; exp_used = R->hdr + R->len;
		if (ok && exp_ok && (ret != 0 || memcmp(out, pay, R->len))) FAIL(d, R_VALUE, "wrong-value", "returned %d, payload differs", ret);
		free(out); break; }
	case D_STRING: { char *s = NULL; ret = evtag_unmarshal_string(e, need, &s); ok = ret != -1; exp_ok = !wrongtag && R->complete; exp_used = R->hdr + R->len;
		if (ok && exp_ok && (ret != 0 || !s || memcmp(s, pay, R->len) || s[R->len] != 0)) FAIL(d, R_VALUE, "wrong-value", "returned %d, string differs or is unterminated", ret);
		if (ok) free(s);
		break; }
	case D_TIMEVAL: { uint64_t a = 0, c = 0; int u1 = R->complete ? ref_int(pay, n - R->hdr, 8, &a) : -1, u2 = u1 > 0 ? ref_int(pay + u1, n - R->hdr - u1, 8, &c) : -1;
		ret = evtag_unmarshal_timeval(e, need, &tv); ok = ret != -1; exp_ok = !wrongtag && R->complete && u1 > 0 && u2 > 0 && (uint32_t)(u1 + u2) <= R->len; exp_used = R->hdr + R->len;
		if (ok && exp_ok && (ret != 0 || (uint64_t)tv.tv_sec != a || (uint64_t)tv.tv_usec != c)) FAIL(d, R_VALUE, "wrong-value", "returned %d %ld/%ld, reference %llu/%llu", ret, (long)tv.tv_sec, (long)tv.tv_usec, (unsigned long long)a, (unsigned long long)c);
		break; }
	default: ok = 0;
	}
	int left = left_is_suffix(e, b, n);
	if (left < 0) FAIL(d, R_CORRUPT, "buffer-corrupted", "after the call (returned %d) the buffer does not hold a tail of the original bytes (%zu bytes left)", ret, evbuffer_get_length(e));
	else if (ok) {
		c_ok[d]++;
		if (!exp_ok) FAIL(d, wrongtag ? R_WRONGTAG : R_ACCEPT, wrongtag ? "succeeds-with-wrong-tag-or-length" : "accepts-malformed", "returned %d although the bytes do not start with a well-formed %s", ret, d <= D_INT64 ? "value" : "item");
		else if (n - left != (never_consumes ? 0 : exp_used)) FAIL(d, R_CONSUMED, "wrong-consumption", "succeeded and consumed %d bytes, one well-formed item is %d bytes", n - left, never_consumes ? 0 : exp_used);
	} else {
		c_fail[d]++;
		if (exp_ok) c_ref_ok_impl_fail++;
		if (left != n) { if (strict_fail || never_consumes) FAIL(d, R_ONFAIL, "consumes-on-failure", "failed but %d bytes are gone", n - left); else c_fail_consumed++; }
	}
	evbuffer_free(e);
	if (dst) evbuffer_free(dst);
}

static void run_all_decoders(const u8 *b, int n, unsigned cuts)
{
	struct ritem R; ref_item(b, n, &R);
	lay_out(b, n, cuts);
	for (int d = 0; d < ND; d++) {
		run_decoder(d, b, n, cuts, &R, 0);
		if (d >= D_UINT && R.t_ok) run_decoder(d, b, n, cuts, &R, 1);
		if (d == D_FIXED && R.complete) run_decoder(d, b, n, cuts, &R, 2);
	}
}

static void flush_counts(void)
{
	MC_COUNTN("decoder_runs", c_runs); c_runs = 0;
	uint64_t ok = 0, fl = 0; for (int d = 0; d < ND; d++) { ok += c_ok[d]; fl += c_fail[d]; c_ok[d] = c_fail[d] = 0; }
	MC_COUNTN("decoder_runs_succeeded", ok); MC_COUNTN("decoder_runs_failed", fl);
	MC_COUNTN("wellformed_but_rejected", c_ref_ok_impl_fail); c_ref_ok_impl_fail = 0;
	MC_COUNTN("composite_failed_after_consuming", c_fail_consumed); c_fail_consumed = 0;
}

/* ------------------------------------------------------------ part 3: arbitrary bytes */
static const u8 ALPHA32[32] = { 0x00, 0x01, 0x02, 0x03, 0x0f, 0x10, 0x11, 0x12, 0x1f, 0x20, 0x21, 0x30, 0x31, 0x40, 0x70, 0x71, 0x7f, 0x80, 0x81, 0x82, 0x8f, 0x90, 0xa0, 0xc1, 0xe0, 0xf0, 0xf1, 0xfe, 0xff, 0x05, 0x41, 0x85 };
static const u8 ALPHA16[16] = { 0x00, 0x01, 0x02, 0x0f, 0x10, 0x11, 0x20, 0x31, 0x70, 0x7f, 0x80, 0x81, 0x8f, 0x90, 0xf0, 0xff };
static const u8 ALPHA5[5] = { 0x00, 0x10, 0x80, 0x8f, 0x01 };
static int ABITS = 4, ALEN = 4, BLEN = 7, BSYM = 4, ALL3 = 0;
static uint64_t n3a, n3b, n3c;     /* item counts of the three sub-ranges */
static uint64_t ipow(uint64_t b, int e) { uint64_t r = 1; while (e-- > 0) r *= b; return r; }

/* sub-range a: item = (length, first symbol [, second symbol]); all strings, all splits */
static void item_bytes_a(uint64_t idx)
{
	const u8 *al = ABITS == 5 ? ALPHA32 : ALPHA16; int A = 1 << ABITS;
	int len, fixed; uint64_t first = 0, second = 0;
	if (idx == 0) { len = 0; fixed = 0; }
	else if (idx <= (uint64_t)A) { len = 1; fixed = 1; first = idx - 1; }
	else { uint64_t k = idx - 1 - A; len = 2 + (int)(k / ((uint64_t)A * A)); k %= (uint64_t)A * A; first = k / A; second = k % A; fixed = 2; }
	memset(rep, 0, sizeof rep);
	u8 b[8]; uint64_t total = ipow(A, len - fixed), nstr = 0;
	for (uint64_t c = 0; c < total; c++) {
		uint64_t x = c;
		if (fixed >= 1) b[0] = al[first];
		if (fixed >= 2) b[1] = al[second];
		for (int i = fixed; i < len; i++) { b[i] = al[x % A]; x /= A; }
		for (unsigned cuts = 0; cuts < (len > 1 ? 1u << (len - 1) : 1u); cuts++) run_all_decoders(b, len, cuts);
		nstr++;
	}
	MC_COUNTN("arbitrary_strings", nstr); flush_counts();
	mc_nontrivial(idx + 1);
	mc_observe("all %llu byte strings of length %d starting with %02x %02x over the %d-value alphabet, every split, %d decoders", (unsigned long long)total, len, len ? al[first] : 0, len > 1 ? al[second] : 0, A, ND);
}
/* sub-range b: longer strings over a tiny alphabet (tag continuation bytes), at most two cuts */
static void item_bytes_b(uint64_t idx)
{
	int len = ALEN + 1 + idx / (BSYM * BSYM), f01 = idx % (BSYM * BSYM);
	memset(rep, 0, sizeof rep);
	u8 b[12]; uint64_t total = ipow(BSYM, len - 2), nstr = 0;
	b[0] = ALPHA5[f01 / BSYM]; b[1] = ALPHA5[f01 % BSYM];
	for (uint64_t c = 0; c < total; c++) {
		uint64_t x = c;
		for (int i = 2; i < len; i++) { b[i] = ALPHA5[x % BSYM]; x /= BSYM; }
		run_all_decoders(b, len, 0);
		for (int i = 0; i < len - 1; i++) { run_all_decoders(b, len, 1u << i); for (int j = i + 1; j < len - 1; j++) run_all_decoders(b, len, 1u << i | 1u << j); }
		nstr++;
	}
	MC_COUNTN("arbitrary_strings", nstr); flush_counts();
	mc_nontrivial(0x10000000 + idx);
	mc_observe("all %llu byte strings of length %d starting %02x %02x over {00 10 80 8f 01}[0..%d), every split with <= 2 cuts", (unsigned long long)total, len, b[0], b[1], BSYM);
}
/* sub-range c: every 2-byte string (all 2^16) and each extended by every byte of the 32-value alphabet */
static void item_bytes_c(uint64_t idx)
{
	memset(rep, 0, sizeof rep);
	u8 b[3] = { (u8)(idx >> 8), (u8)idx, 0 };
	for (unsigned cuts = 0; cuts < 2; cuts++) run_all_decoders(b, 2, cuts);
	for (int c = 0; c < 32; c++) { b[2] = ALPHA32[c]; for (unsigned cuts = 0; cuts < 4; cuts++) run_all_decoders(b, 3, cuts); }
	MC_COUNTN("arbitrary_strings", 33); flush_counts();
	mc_nontrivial(0x20000000 + idx);
	mc_observe("byte string %02x %02x and its 32 extensions by one byte of the 32-value alphabet, every split", b[0], b[1]);
}

/* ------------------------------------------------------------ part 1: round trips */
static const uint32_t TAGS[] = { 0, 1, 0x7e, 0x7f, 0x80, 0x81, 0x3fff, 0x4000, 0x4001, 0x1fffff, 0x200000, 0x200001, 0x0fffffff, 0x10000000, 0x10000001, 0x7fffffff, 0x80000000u, 0xfffffffeu, 0xffffffffu };
#define NTAGS ((int)(sizeof TAGS / sizeof TAGS[0]))
static uint64_t INTS[120]; static int NI32, NI64;
static void build_ints(void)
{
	if (NI64) return;
	int n = 0;
	for (int k = 0; k <= 64; k += 4) for (int d = -1; d <= 1; d++) {
		unsigned __int128 v = ((unsigned __int128)1 << k) + d;
		if (k == 0 && d < 0) continue;
		if (v > ~(uint64_t)0) continue;
		INTS[n++] = (uint64_t)v;
	}
	INTS[n++] = 0x12345678; INTS[n++] = 0x123456789abcdef0ULL; INTS[n++] = 0xa5; INTS[n++] = 0x0f0f0f0f; INTS[n++] = 0xf0f0f0f0f0f0f0f0ULL;
	/* sort, unique */
	for (int i = 0; i < n; i++) for (int j = i + 1; j < n; j++) if (INTS[j] < INTS[i]) { uint64_t t = INTS[i]; INTS[i] = INTS[j]; INTS[j] = t; }
	int m = 0; for (int i = 0; i < n; i++) if (!m || INTS[m - 1] != INTS[i]) INTS[m++] = INTS[i];
	NI64 = m; NI32 = 0; while (NI32 < m && INTS[NI32] <= 0xffffffffULL) NI32++;
}

static int rrep[16]; static uint64_t rt_cases, rt_splits;
#define RFAIL(slot, key, ...) do { if (ONCE(rrep[slot])) mc_fail(key, __VA_ARGS__); } while (0)

/* copy the whole content of an evbuffer out */
static int drain_to(struct evbuffer *e, u8 *out, int cap) { int n = (int)evbuffer_get_length(e); if (n > cap) return -1; evbuffer_remove(e, out, n); return n; }

/* buffer whose chains are separately malloc'ed exact-size pieces (freed by the cleanup callback) */
static void free_piece(const void *data, size_t len, void *extra) { (void)len; (void)extra; free((void *)data); }
static struct evbuffer *mkbuf_cuts(const u8 *b, int n, const int *cut, int ncut)   /* cut[] ascending, each in (0, n) */
{
	struct evbuffer *e = evbuffer_new();
	int start = 0;
	for (int i = 0; i <= ncut; i++) {
		int end = i < ncut ? cut[i] : n;
		if (end <= start) continue;
		u8 *p = malloc(end - start); memcpy(p, b + start, end - start);
		evbuffer_add_reference(e, p, end - start, free_piece, NULL);
		start = end;
	}
	return e;
}

/* an encoding of n bytes is decoded from every split: all 2^(n-1) when n <= 11, otherwise every
 * single cut in the first 12 bytes, in the middle and before the last byte, each alone and with a second cut at n-1 */
typedef void (*decode_fn)(struct evbuffer *e, const void *ctx, const char *hx);
static void for_all_splits(const u8 *b, int n, decode_fn fn, const void *ctx)
{
	char hx[200]; hex(hx, b, n > 40 ? 40 : n, 0);
	rt_cases++;
	if (n <= 11) {
		for (unsigned cuts = 0; cuts < (n > 1 ? 1u << (n - 1) : 1u); cuts++) {
			int cut[16], nc = 0;
			for (int i = 0; i < n - 1; i++) if (cuts >> i & 1) cut[nc++] = i + 1;
			struct evbuffer *e = mkbuf_cuts(b, n, cut, nc); fn(e, ctx, hx); evbuffer_free(e); rt_splits++;
		}
		return;
	}
	int pos[20], np = 0;
	for (int i = 1; i <= 12 && i < n; i++) pos[np++] = i;
	if (n / 2 > 12) pos[np++] = n / 2;
	if (n - 1 > 12 && n - 1 != n / 2) pos[np++] = n - 1;
	{ struct evbuffer *e = mkbuf_cuts(b, n, NULL, 0); fn(e, ctx, hx); evbuffer_free(e); rt_splits++; }
	for (int a = 0; a < np; a++) {
		int cut[2] = { pos[a], n - 1 };
		struct evbuffer *e = mkbuf_cuts(b, n, cut, 1); fn(e, ctx, hx); evbuffer_free(e); rt_splits++;
		if (pos[a] < n - 1) { e = mkbuf_cuts(b, n, cut, 2); fn(e, ctx, hx); evbuffer_free(e); rt_splits++; }
	}
}

static u8 ENC[70000]; static int ENCLEN;
static void take_encoding(struct evbuffer *e) { ENCLEN = drain_to(e, ENC, sizeof ENC); }

/* --- tags */
static void dec_tag(struct evbuffer *e, const void *ctx, const char *hx)
{
	uint32_t want = *(const uint32_t *)ctx, t = ~want; int n = (int)evbuffer_get_length(e);
	int r = evtag_peek(e, &t);
	if (r != n || t != want || (int)evbuffer_get_length(e) != n) RFAIL(0, "C42/roundtrip/tag-peek", "tag %#x encoded as %s: peek returned %d tag %#x, %zu bytes left", want, hx, r, t, evbuffer_get_length(e));
	t = ~want; r = evtag_decode_tag(&t, e);
	if (r != n || t != want || evbuffer_get_length(e) != 0) RFAIL(1, "C42/roundtrip/tag", "tag %#x encoded as %s: decode returned %d tag %#x, %zu bytes left", want, hx, r, t, evbuffer_get_length(e));
}
/* --- bare integers */
static void dec_int32(struct evbuffer *e, const void *ctx, const char *hx)
{
	uint32_t want = *(const uint32_t *)ctx, v = ~want;
	int r = evtag_decode_int(&v, e);
	if (r != 0 || v != want || evbuffer_get_length(e) != 0) RFAIL(2, "C42/roundtrip/int", "%#x encoded as %s: decode returned %d value %#x, %zu bytes left", want, hx, r, v, evbuffer_get_length(e));
}
static void dec_int64(struct evbuffer *e, const void *ctx, const char *hx)
{
	uint64_t want = *(const uint64_t *)ctx, v = ~want;
	int r = evtag_decode_int64(&v, e);
	if (r != 0 || v != want || evbuffer_get_length(e) != 0) RFAIL(3, "C42/roundtrip/int64", "%#llx encoded as %s: decode returned %d value %#llx, %zu bytes left", (unsigned long long)want, hx, r, (unsigned long long)v, evbuffer_get_length(e));
}
/* --- marshalled items: ctx describes what was marshalled */
struct mctx { int kind; uint32_t tag; uint64_t ival; const u8 *data; uint32_t dlen; struct timeval tv; int total; };
enum { K_INT, K_INT64, K_STRING, K_RAW, K_TIMEVAL };
static void dec_item(struct evbuffer *e, const void *vctx, const char *hx)
{
	const struct mctx *c = vctx;
	uint32_t t = ~c->tag, l = 0xdeadbeef; int r;
	/* the peeking calls first: they must not change anything */
	r = evtag_peek(e, &t);
	if (r < 1 || t != c->tag) RFAIL(4, "C42/roundtrip/item-peek", "tag %#x item %s: peek returned %d tag %#x", c->tag, hx, r, t);
	r = evtag_peek_length(e, &l);
	if (r != 0 || l != (uint32_t)c->total) RFAIL(5, "C42/roundtrip/item-peek-length", "tag %#x item %s (%d bytes): peek_length returned %d length %u", c->tag, hx, c->total, r, l);
	r = evtag_payload_length(e, &l);
	int hdr = c->total - (int)l;
	if (r != 0 || hdr < 2 || (int)evbuffer_get_length(e) != c->total) RFAIL(6, "C42/roundtrip/item-payload-length", "tag %#x item %s: payload_length returned %d length %u, %zu bytes in buffer", c->tag, hx, r, l, evbuffer_get_length(e));
	switch (c->kind) {
	case K_INT: { uint32_t v = ~(uint32_t)c->ival; r = evtag_unmarshal_int(e, c->tag, &v);
		if (r < 1 || v != (uint32_t)c->ival || evbuffer_get_length(e)) RFAIL(7, "C42/roundtrip/marshal-int", "tag %#x value %#x item %s: returned %d value %#x, %zu left", c->tag, (uint32_t)c->ival, hx, r, v, evbuffer_get_length(e)); break; }
	case K_INT64: { uint64_t v = ~c->ival; r = evtag_unmarshal_int64(e, c->tag, &v);
		if (r < 1 || v != c->ival || evbuffer_get_length(e)) RFAIL(8, "C42/roundtrip/marshal-int64", "tag %#x value %#llx item %s: returned %d value %#llx, %zu left", c->tag, (unsigned long long)c->ival, hx, r, (unsigned long long)v, evbuffer_get_length(e)); break; }
	case K_STRING: { char *s = NULL; r = evtag_unmarshal_string(e, c->tag, &s);
		if (r != 0 || !s || strlen(s) != c->dlen || memcmp(s, c->data, c->dlen) || evbuffer_get_length(e)) RFAIL(9, "C42/roundtrip/marshal-string", "tag %#x string of %u bytes item %s: returned %d, %zu left", c->tag, c->dlen, hx, r, evbuffer_get_length(e));
		if (r == 0) free(s);
		break; }
	case K_RAW: { u8 *out = malloc(c->dlen ? c->dlen : 1);
		r = evtag_unmarshal_fixed(e, c->tag, out, c->dlen);
		if (r != 0 || memcmp(out, c->data, c->dlen) || evbuffer_get_length(e)) RFAIL(10, "C42/roundtrip/marshal-fixed", "tag %#x %u raw bytes item %s: returned %d, %zu left", c->tag, c->dlen, hx, r, evbuffer_get_length(e));
		free(out); break; }
	case K_TIMEVAL: { struct timeval tv = { -1, -1 }; r = evtag_unmarshal_timeval(e, c->tag, &tv);
		if (r != 0 || tv.tv_sec != c->tv.tv_sec || tv.tv_usec != c->tv.tv_usec || evbuffer_get_length(e)) RFAIL(11, "C42/roundtrip/marshal-timeval", "tag %#x %ld.%06ld item %s: returned %d %ld.%06ld, %zu left", c->tag, (long)c->tv.tv_sec, (long)c->tv.tv_usec, hx, r, (long)tv.tv_sec, (long)tv.tv_usec, evbuffer_get_length(e)); break; }
	}
}
/* generic readers of the same item: header + payload, consume, unmarshal into a buffer */
static void dec_generic(struct evbuffer *e, const void *vctx, const char *hx)
{
	const struct mctx *c = vctx;
	static u8 tmp[70000];
	struct evbuffer *e2 = evbuffer_new(), *e3 = evbuffer_new(), *dst = evbuffer_new();
	/* three identical copies of the chain layout are not available, so re-add the bytes as one reference each; the split variant is e */
	uint32_t t = ~c->tag; int plen = c->total, r;
	evbuffer_copyout(e, tmp, plen);
	evbuffer_add(e2, tmp, plen); evbuffer_add(e3, tmp, plen);
	r = evtag_unmarshal_header(e, &t);
	int hdr = c->total - r;
	if (r < 0 || t != c->tag || (int)evbuffer_get_length(e) != r) RFAIL(12, "C42/roundtrip/unmarshal-header", "tag %#x item %s: returned %d tag %#x, %zu left", c->tag, hx, r, t, evbuffer_get_length(e));
	else if (c->kind == K_STRING || c->kind == K_RAW) { if ((uint32_t)r != c->dlen || (r && memcmp(evbuffer_pullup(e, r), c->data, r))) RFAIL(12, "C42/roundtrip/unmarshal-header", "tag %#x item %s: payload of %d bytes differs", c->tag, hx, r); }
	if (evtag_consume(e2) != 0 || evbuffer_get_length(e2) != 0) RFAIL(13, "C42/roundtrip/consume", "tag %#x item %s: consume failed or left %zu bytes", c->tag, hx, evbuffer_get_length(e2));
	t = ~c->tag; r = evtag_unmarshal(e3, &t, dst);
	if (r != c->total - hdr || t != c->tag || evbuffer_get_length(e3) != 0 || (int)evbuffer_get_length(dst) != r || (r > 0 && memcmp(evbuffer_pullup(dst, -1), tmp + hdr, r)))
		RFAIL(14, "C42/roundtrip/unmarshal", "tag %#x item %s: unmarshal returned %d tag %#x, %zu left, %zu delivered", c->tag, hx, r, t, evbuffer_get_length(e3), evbuffer_get_length(dst));
	evbuffer_free(e2); evbuffer_free(e3); evbuffer_free(dst);
}

static u8 PATTERN[70000];
static const uint32_t SLENS[] = { 0, 1, 2, 15, 16, 17, 127, 128, 255, 256, 257, 4095, 4096, 65535, 65536 };
#define NSLENS 15
static const struct timeval TVS[] = { {0,0}, {1,0}, {0,1}, {15,16}, {255,256}, {1,999999}, {0x7fffffff,999999}, {0x80000000L,1}, {0xffffffffL,0xfffff}, {1700000000,123456}, {0x10000000,0x0fffffff}, {0xfffffff,0xffffffffL} };
#define NTVS 12

static void marshal_and_check(struct mctx *c)
{
	struct evbuffer *e = evbuffer_new();
	switch (c->kind) {
	case K_INT: evtag_marshal_int(e, c->tag, (uint32_t)c->ival); break;
	case K_INT64: evtag_marshal_int64(e, c->tag, c->ival); break;
	case K_STRING: evtag_marshal_string(e, c->tag, (const char *)c->data); break;
	case K_RAW: evtag_marshal(e, c->tag, c->data, c->dlen); break;
	case K_TIMEVAL: evtag_marshal_timeval(e, c->tag, &c->tv); break;
	}
	take_encoding(e); evbuffer_free(e);
	c->total = ENCLEN;
	/* the encoding itself must be one well-formed item of the reference codec */
	struct ritem R; ref_item(ENC, ENCLEN, &R);
	if (!R.complete || R.tag != c->tag || R.hdr + (int)R.len != ENCLEN) { char hx[100]; hex(hx, ENC, ENCLEN > 40 ? 40 : ENCLEN, 0); RFAIL(15, "C42/roundtrip/encoding-not-wellformed", "kind %d tag %#x: %s", c->kind, c->tag, hx); return; }
	for_all_splits(ENC, ENCLEN, dec_item, c);
	for_all_splits(ENC, ENCLEN, dec_generic, c);
}

/* item = one tag of the catalogue (or a sequence case) */
static void item_roundtrip(uint64_t idx)
{
	build_ints();
	memset(rrep, 0, sizeof rrep); rt_cases = rt_splits = 0;
	if (idx < (uint64_t)NTAGS * 3) {
		int grp = (int)(idx % 3); idx /= 3;          /* 0: tag itself + integers, 1: strings / raw data, 2: timevals */
		uint32_t tag = TAGS[idx];
		struct evbuffer *e = evbuffer_new();
		int r = evtag_encode_tag(e, tag), r0 = evtag_encode_tag(NULL, tag);
		take_encoding(e); evbuffer_free(e);
		u8 ref[8]; int rl = enc_tag(ref, tag);
		if (r != ENCLEN || r0 != r || rl != r || memcmp(ref, ENC, rl)) RFAIL(15, "C42/roundtrip/tag-encoding", "tag %#x: encode returned %d/%d, %d bytes written, reference %d bytes", tag, r, r0, ENCLEN, rl);
		else for_all_splits(ENC, ENCLEN, dec_tag, &tag);
		struct mctx c; memset(&c, 0, sizeof c); c.tag = tag;
		for (int i = 0; i < NI64 && grp == 0; i++) {
			c.ival = INTS[i];
			if (i < NI32) { c.kind = K_INT; marshal_and_check(&c); }
			c.kind = K_INT64; marshal_and_check(&c);
		}
		for (int i = 0; i < NSLENS && grp == 1; i++) {
			/* long payloads only with a few tags: the framing is the same */
			if (SLENS[i] > 300 && idx % 4) continue;
			if (SLENS[i] > 5000 && idx != 0 && idx != NTAGS - 1) continue;
			for (uint32_t k = 0; k < SLENS[i]; k++) PATTERN[k] = (u8)(1 + (k * 7 + idx) % 255);    /* no NUL inside */
			PATTERN[SLENS[i]] = 0;
			c.data = PATTERN; c.dlen = SLENS[i];
			c.kind = K_STRING; marshal_and_check(&c);
			if (SLENS[i]) PATTERN[SLENS[i] / 2] = 0;                                               /* raw data may contain NUL */
			c.kind = K_RAW; marshal_and_check(&c);
		}
		for (int i = 0; i < NTVS && grp == 2; i++) { c.kind = K_TIMEVAL; c.tv = TVS[i]; marshal_and_check(&c); }
		mc_observe("round trip of tag %#x, %s: %llu encodings, %llu split variants", tag, grp == 0 ? "the tag itself, 32- and 64-bit integers" : grp == 1 ? "strings and raw data" : "timevals", (unsigned long long)rt_cases, (unsigned long long)rt_splits);
		idx = idx * 3 + grp;
	} else if (idx < (uint64_t)NTAGS * 3 + 1) {
		/* bare integers */
		for (int i = 0; i < NI64; i++) {
			struct evbuffer *e = evbuffer_new(); u8 ref[12]; int rl;
			if (i < NI32) {
				uint32_t v = (uint32_t)INTS[i];
				evtag_encode_int(e, v); take_encoding(e); rl = enc_int(ref, v);
				if (rl != ENCLEN || memcmp(ref, ENC, rl)) RFAIL(15, "C42/roundtrip/int-encoding", "%#x: %d bytes written, reference %d", v, ENCLEN, rl);
				else for_all_splits(ENC, ENCLEN, dec_int32, &v);
			}
			uint64_t w = INTS[i];
			evtag_encode_int64(e, w); take_encoding(e); rl = enc_int(ref, w);
			if (rl != ENCLEN || memcmp(ref, ENC, rl)) RFAIL(15, "C42/roundtrip/int-encoding", "%#llx: %d bytes written, reference %d", (unsigned long long)w, ENCLEN, rl);
			else for_all_splits(ENC, ENCLEN, dec_int64, &w);
			evbuffer_free(e);
		}
		mc_observe("round trip of %d 32-bit and %d 64-bit bare integers; %llu split variants", NI32, NI64, (unsigned long long)rt_splits);
	} else {
		/* items read back in order: int, string, timeval, int64, raw marshalled into one buffer; every single cut and every pair of cuts */
		int variant = (int)(idx - NTAGS * 3 - 1);
		uint32_t tg[5]; for (int i = 0; i < 5; i++) tg[i] = TAGS[(variant * 5 + i * 3) % NTAGS];
		uint32_t iv = (uint32_t)INTS[(variant * 7 + 3) % NI32]; uint64_t lv = INTS[(variant * 11 + 5) % NI64];
		struct timeval tv = TVS[variant % NTVS]; char str[20]; snprintf(str, sizeof str, "s%dxyz", variant); u8 raw[5] = { 0, (u8)variant, 0xff, 0x80, 0 };
		struct evbuffer *e = evbuffer_new();
		evtag_marshal_int(e, tg[0], iv); evtag_marshal_string(e, tg[1], str); evtag_marshal_timeval(e, tg[2], &tv); evtag_marshal_int64(e, tg[3], lv); evtag_marshal(e, tg[4], raw, 5);
		take_encoding(e); evbuffer_free(e);
		int n = ENCLEN;
		for (int c1 = 0; c1 < n; c1++) for (int c2 = c1; c2 < n; c2++) {
			if (c2 == c1 && c1) continue;
			int cut[2] = { c1, c2 }; int nc = c1 == 0 ? 0 : (c2 > c1 ? 2 : 1);
			if (c1 == 0 && c2 > 0) { cut[0] = c2; nc = 1; }
			struct evbuffer *b = mkbuf_cuts(ENC, n, cut, nc);
			uint32_t v = ~iv; uint64_t w = ~lv; char *s = NULL; struct timeval t2 = { -1, -1 }; u8 out[5];
			int r1 = evtag_unmarshal_int(b, tg[0], &v), r2 = evtag_unmarshal_string(b, tg[1], &s), r3 = evtag_unmarshal_timeval(b, tg[2], &t2), r4 = evtag_unmarshal_int64(b, tg[3], &w), r5 = evtag_unmarshal_fixed(b, tg[4], out, 5);
			rt_splits++;
			if (r1 < 1 || v != iv || r2 != 0 || !s || strcmp(s, str) || r3 != 0 || t2.tv_sec != tv.tv_sec || t2.tv_usec != tv.tv_usec || r4 < 1 || w != lv || r5 != 0 || memcmp(out, raw, 5) || evbuffer_get_length(b))
				RFAIL(0, "C42/roundtrip/sequence", "five items (%d bytes) cut at %d,%d: results %d %d %d %d %d, %zu bytes left", n, c1, c2, r1, r2, r3, r4, r5, evbuffer_get_length(b));
			if (r2 == 0) free(s);
			evbuffer_free(b);
		}
		rt_cases++;
		mc_observe("sequence variant %d: five items (%d bytes) read back in order from every 1- and 2-cut split (%llu)", variant, n, (unsigned long long)rt_splits);
	}
	MC_COUNTN("roundtrip_encodings", rt_cases); MC_COUNTN("roundtrip_split_variants", rt_splits);
	mc_nontrivial(0x3000000 + idx);
}
#define N_SEQ 24

/* ------------------------------------------------------------ part 2: sweep */
static int SWEEPBITS = 20;
static uint32_t sweep_value(uint64_t i)
{
	/* with sweepbits < 32 the candidates are spread: half by an odd multiplier, half around every encoding-length boundary */
	if (SWEEPBITS >= 32) return (uint32_t)i;
	if (i < (1u << (SWEEPBITS - 1))) return (uint32_t)(i * 2654435761u);
	uint64_t j = i - (1u << (SWEEPBITS - 1)); int per = (1 << (SWEEPBITS - 1)) / 16; int slot = (int)(j / per); int64_t off = (int64_t)(j % per) - per / 2;
	static const uint64_t CENTER[16] = { 0x80, 0x4000, 0x200000, 0x10000000, 0x10, 0x100, 0x1000, 0x10000, 0x100000, 0x1000000, 0x10000000, 0x100000000ULL, 0x80000000ULL, 0, 0x8000, 0x800000 };
	return (uint32_t)(CENTER[slot] + off);
}
/* item = 2^16 candidates, in batches of 256: every value is encoded as a tag and as an integer, one after the
 * other into one buffer (whose chain boundaries fall wherever they fall), the bytes are compared with the
 * reference encoder, and everything is read back in order */
#define BATCH 256
static void item_sweep(uint64_t idx)
{
	struct evbuffer *e = evbuffer_new();
	int bad = 0; uint64_t n = 0;
	static u8 refbytes[BATCH * 12], got[BATCH * 12];
	for (uint64_t k0 = 0; k0 < 65536 && !bad; k0 += BATCH) {
		int rl = 0;
		for (int k = 0; k < BATCH; k++) {
			uint32_t v = sweep_value(idx * 65536 + k0 + k);
			int a = enc_tag(refbytes + rl, v); rl += a;
			int r = evtag_encode_tag(e, v);
			if (r != a && ONCE(bad)) mc_fail("C42/roundtrip/tag-encoding", "tag %#x: encode returned %d, reference %d bytes", v, r, a);
			rl += enc_int(refbytes + rl, v);
			evtag_encode_int(e, v);
		}
		if ((evbuffer_get_length(e) != (size_t)rl || evbuffer_copyout(e, got, rl) != rl || memcmp(got, refbytes, rl)) && ONCE(bad)) {
			mc_fail("C42/roundtrip/sweep-encoding", "values from %#x: %zu bytes written, reference %d bytes, or the bytes differ", sweep_value(idx * 65536 + k0), evbuffer_get_length(e), rl); break; }
		for (int k = 0; k < BATCH; k++) {
			uint32_t v = sweep_value(idx * 65536 + k0 + k), t = ~v, w = ~v;
			u8 tmp[8]; int a = enc_tag(tmp, v);
			int r = evtag_decode_tag(&t, e);
			if ((r != a || t != v) && ONCE(bad)) { mc_fail("C42/roundtrip/tag", "tag %#x: decode returned %d tag %#x", v, r, t); break; }
			r = evtag_decode_int(&w, e);
			if ((r != 0 || w != v) && ONCE(bad)) { mc_fail("C42/roundtrip/int", "%#x: decode returned %d value %#x", v, r, w); break; }
			n++;
		}
		if (!bad && evbuffer_get_length(e) && ONCE(bad)) mc_fail("C42/roundtrip/sweep-leftover", "%zu bytes left after reading everything back", evbuffer_get_length(e));
	}
	evbuffer_free(e);
	MC_COUNTN("sweep_values", n);
	mc_nontrivial(0x4000000 + idx);
	mc_observe("sweep block %llu: values %#x.. as tag and as integer, %d at a time into one buffer, bytes == reference encoder, read back in order", (unsigned long long)idx, sweep_value(idx * 65536), BATCH);
}

/* ------------------------------------------------------------ */
static int PART = 1;
static void item(uint64_t i)
{
	switch (PART) {
	case 1: item_roundtrip(i); break;
	case 2: item_sweep(i); break;
	case 3: if (i < n3a) item_bytes_a(i); else if (i < n3a + n3b) item_bytes_b(i - n3a); else item_bytes_c(i - n3a - n3b); break;
	}
}
static void quiet(int sev, const char *msg) { (void)sev; (void)msg; }
static void init(void) { event_set_log_callback(quiet); }

static const char *arg_param(int argc, char **argv, const char *name, const char *dflt)
{
	size_t l = strlen(name);
	for (int i = 1; i + 1 < argc; i++) if (!strcmp(argv[i], "-P") && !strncmp(argv[i + 1], name, l) && argv[i + 1][l] == '=') return argv[i + 1] + l + 1;
	return dflt;
}
int main(int argc, char **argv)
{
	PART = atoi(arg_param(argc, argv, "part", "1"));
	ABITS = atoi(arg_param(argc, argv, "abits", "4")); ALEN = atoi(arg_param(argc, argv, "alen", "4"));
	BLEN = atoi(arg_param(argc, argv, "blen", "7")); BSYM = atoi(arg_param(argc, argv, "bsym", "4")); ALL3 = atoi(arg_param(argc, argv, "all3", "0"));
	SWEEPBITS = atoi(arg_param(argc, argv, "sweepbits", "20"));
	uint64_t n;
	switch (PART) {
	case 1: n = NTAGS * 3 + 1 + N_SEQ; break;
	case 2: n = 1ULL << (SWEEPBITS - 16); break;
	case 3: n3a = 1 + (1 << ABITS) + (ALEN > 1 ? (uint64_t)(ALEN - 1) << (2 * ABITS) : 0); n3b = BLEN > ALEN ? (uint64_t)(BLEN - ALEN) * BSYM * BSYM : 0; n3c = ALL3 ? 65536 : 0; n = n3a + n3b + n3c; break;
	default: return 2;
	}
	struct mc_config cfg = { .property = "C42", .n_items = n, .item = item, .init = init };
	return mc_main(argc, argv, &cfg);
}
