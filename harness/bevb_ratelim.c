/* C22 — rate-limited socket bufferevents never exceed their configured bandwidth.
 *
 * Tree-mode exploration over the real bufferevent_ratelim.c / bufferevent_sock.c
 * under a virtual clock.  1–2 socket bufferevents (AF_UNIX socketpairs), each
 * optionally with its own token bucket (rate 100 B/tick, burst 200, tick = 1
 * virtual second) and optionally member of one rate-limit group (rate 150, burst
 * 300).  The peer is always ready: before every loop run each bufferevent has
 * PEND unread bytes waiting in its socket, and everything it writes is consumed
 * at once.  read/readv/write/writev are wrapped (--wrap): every byte the library
 * moves on a harness fd is attributed to the virtual tick in which it moved.
 *
 * Oracles (see notes/bevB.md):
 *   window    for every window of k consecutive ticks  Σ bytes ≤ burst + k·rate (+ credit the
 *             user granted through negative manual decrements), per bufferevent and per
 *             group, per direction;
 *   max-single every successful read/write call ≤ bufferevent_set_max_single_read/write;
 *   progress  if a limited bufferevent is enabled, has data available and (reference
 *             bucket) budget remaining for a whole tick, it must move ≥ 1 byte in it.
 */
#include "mcx.h"
#include "vclock.h"
#include <event2/event.h>
#include <event2/bufferevent.h>
#include <event2/buffer.h>
#include "event-internal.h"
#include "bufferevent-internal.h"
#include "ratelim-internal.h"
#include <sys/socket.h>
#include <sys/uio.h>
#include <unistd.h>
#include <errno.h>
#include <string.h>
#include <stdio.h>
#include <fcntl.h>

#define NB 2
#define TICK_US 1000000LL
#define PEND 4096
enum { R = 0, W = 1 };
static const char *dname[] = { "read", "write" };

static int nbev, use_group;
static long burstA = 200, gburst = 300;   /* -P burstA= / -P gburst=: bursts of cfgA and of the group (rates 100 / 150) */
static long gwrate = 150, gwburst = 300; /* -P gwrate= / -P gwburst=: the group's write side, for asymmetric groups */
static struct event_base *base;
static struct bufferevent *bev[NB];
static int fd[NB][2];
static struct ev_token_bucket_cfg *cfgA, *cfgB, *gcfg;
static struct bufferevent_rate_limit_group *grp;
static int dead;
static char payload[8192];

/* ------------------------------------------------------------------ */
/* oracle state                                                        */
struct bk {
	int on;
	long rate, burst;
	long lo;               /* reference bucket level (documentation reading), used for "budget remaining" */
	long cur;              /* bytes moved in the current tick */
	long mprev;            /* max(0, max over windows ending with the previous tick of Σ(bytes − rate)) */
	long credit;           /* Σ of negative manual decrements since (re)configuration */
	long since_credit;     /* bytes moved since the tick of the first credit */
	int64_t credit_tick;   /* tick of the first credit, −1 = none */
};
static struct bk own[NB][2], gbk[2];
static int64_t cur_tick;
static struct {
	int en[NB][2];
	int limited[NB];       /* 0 none, 1 cfgA, 2 cfgB */
	int member[NB];
	long maxsingle[NB][2];
	size_t kpend[NB];      /* unread bytes waiting for bev i */
	long op_bytes[NB][2];  /* bytes moved during the current op */
	int64_t cond_since[NB][2]; /* since when "should progress" has held without any byte moved; −1 = not */
} M;
static long n_io_calls, n_cb;

static void bk_config(struct bk *b, long rate, long burst)
{
	memset(b, 0, sizeof *b);
	b->on = 1; b->rate = rate; b->burst = burst; b->lo = rate; b->credit_tick = -1;
}
static void bk_reconfig(struct bk *b, long rate, long burst)
{
	/* bufferevent_set_rate_limit on an already limited bufferevent: "we only clip downwards" */
	long lo = b->lo > burst ? burst : b->lo;
	bk_config(b, rate, burst);
	b->lo = lo;
}
static void bk_tick(struct bk *b)
{
	if (!b->on) return;
	long w = b->mprev + b->cur - b->rate;
	b->mprev = w > 0 ? w : 0;
	b->cur = 0;
	/* Reference level = lower bound of what the documentation grants: refill by rate up to burst.
	 * A level above burst (manual credit) is clipped at the next tick — the repaired
	 * ev_token_bucket_update_ (C21) does that, the unrepaired one keeps more; either way
	 * the real bucket holds at least this much once it has caught up. */
	if (b->lo >= b->burst) b->lo = b->burst;
	else { b->lo += b->rate; if (b->lo > b->burst) b->lo = b->burst; }
}
static void bk_fail(const char *who, int d, struct bk *b, const char *cls)
{
	char key[128];
	snprintf(key, sizeof key, "C22/%s/%s/%s", who, dname[d], cls);
	mc_fail(key, "tick %lld: window excess %ld > burst %ld + credit %ld (rate %ld, bytes this tick %ld, carried %ld)",
	    (long long)cur_tick, b->mprev + b->cur - b->rate, b->burst, b->credit, b->rate, b->cur, b->mprev);
	dead = 1;
}
static void bk_io(const char *who, int d, struct bk *b, long n)
{
	if (!b->on) return;
	b->cur += n; b->lo -= n;
	if (b->credit_tick >= 0) b->since_credit += n;
	MC_COUNT("window_checks");
	if (b->mprev + b->cur - b->rate > b->burst + b->credit && !dead) {
		/* A credit that lifted the bucket above its burst and then kept earning refills
		 * (ev_token_bucket_update_ does not clamp a level above the maximum — the C21 defect)
		 * has this signature: the window starting with the credit is still within budget. */
		if (b->credit > 0 &&
		    b->since_credit <= b->burst + b->credit + (cur_tick - b->credit_tick + 1) * b->rate)
			bk_fail(who, d, b, "window-exceeded/unused-credit-above-burst-keeps-refilling");
		else
			bk_fail(who, d, b, b->credit > 0 ? "window-exceeded/after-manual-credit" : "window-exceeded");
	}
}
static void bk_decr(struct bk *b, long decr, int64_t tick)
{
	if (!b->on) return;
	if (decr >= 0) b->lo -= decr;
	else if (b->lo < b->burst) {
		/* lower bound: a credit is only relied upon up to the burst (the repaired
		 * ev_token_bucket_update_ clips a level above the maximum at its next — lazy — update,
		 * which can come right after the credit) */
		b->lo -= decr; if (b->lo > b->burst) b->lo = b->burst;
	}
	if (decr < 0) {
		b->credit += -decr;
		if (b->credit_tick < 0) { b->credit_tick = tick; b->since_credit = b->cur; }
	}
}

/* ------------------------------------------------------------------ */
/* syscall wrappers: count what the library moves on the harness fds    */
ssize_t __real_read(int, void *, size_t);
ssize_t __real_readv(int, const struct iovec *, int);
ssize_t __real_write(int, const void *, size_t);
ssize_t __real_writev(int, const struct iovec *, int);

static void note_io(int f, int d, ssize_t n)
{
	int i;
	if (n <= 0 || !base) return;
	for (i = 0; i < nbev; i++) if (fd[i][0] == f) break;
	if (i == nbev) return;
	n_io_calls++;
	if (d == R) M.kpend[i] -= (size_t)n < M.kpend[i] ? (size_t)n : M.kpend[i];
	M.op_bytes[i][d] += n;
	MC_COUNT("io_calls_checked");
	if (n > M.maxsingle[i][d] && !dead) {
		char key[96]; snprintf(key, sizeof key, "C22/bev/%s/max-single-exceeded", dname[d]);
		mc_fail(key, "one %s call moved %zd bytes, max_single is %ld", dname[d], n, M.maxsingle[i][d]); dead = 1;
	}
	if (M.limited[i]) bk_io("bev", d, &own[i][d], n);
	if (M.member[i]) bk_io("group", d, &gbk[d], n);
}
ssize_t __wrap_read(int f, void *b, size_t n) { ssize_t r = __real_read(f, b, n); note_io(f, R, r); return r; }
ssize_t __wrap_readv(int f, const struct iovec *v, int c) { ssize_t r = __real_readv(f, v, c); note_io(f, R, r); return r; }
ssize_t __wrap_write(int f, const void *b, size_t n) { ssize_t r = __real_write(f, b, n); note_io(f, W, r); return r; }
ssize_t __wrap_writev(int f, const struct iovec *v, int c) { ssize_t r = __real_writev(f, v, c); note_io(f, W, r); return r; }

/* ------------------------------------------------------------------ */
static void readcb(struct bufferevent *b, void *a)
{
	(void)a; n_cb++;
	struct evbuffer *in = bufferevent_get_input(b);
	evbuffer_drain(in, evbuffer_get_length(in));
}
static void writecb(struct bufferevent *b, void *a) { (void)b; (void)a; n_cb++; }
static void eventcb(struct bufferevent *b, short what, void *a)
{
	(void)b; (void)a; n_cb++;
	mc_fail("C22/harness/unexpected-event", "event %#x", (unsigned)what); dead = 1;
}
static void idle(void) { event_base_loopbreak(base); }
static void logcb(int sev, const char *m) { (void)sev; (void)m; }

static void top_up(void)
{
	for (int i = 0; i < nbev; i++)
		while (M.kpend[i] < PEND) {
			size_t want = PEND - M.kpend[i];
			ssize_t r = __real_write(fd[i][1], payload, want > sizeof payload ? sizeof payload : want);
			if (r <= 0) { mc_fail("C22/harness/top-up", "peer write -> %zd errno %d", r, errno); dead = 1; return; }
			M.kpend[i] += (size_t)r;
		}
}
static void peer_drain(void)
{
	char buf[4096];
	for (int i = 0; i < nbev; i++) while (__real_read(fd[i][1], buf, sizeof buf) > 0) ;
}
static void loop_steps(void)
{
	top_up();
	for (int k = 0; k < 64 && !dead; k++) {
		long c0 = n_io_calls + n_cb;
		event_base_loop(base, EVLOOP_NONBLOCK);
		peer_drain();
		if (c0 == n_io_calls + n_cb) return;
	}
	if (!dead) { mc_fail("C22/harness/loop-does-not-settle", "64 loop runs without quiescence"); dead = 1; }
}

static void advance_clock(int64_t d)
{
	vclock_advance(d);
	while (vclock_us / TICK_US > cur_tick) {
		cur_tick++;
		for (int i = 0; i < nbev; i++) { bk_tick(&own[i][R]); bk_tick(&own[i][W]); }
		bk_tick(&gbk[R]); bk_tick(&gbk[W]);
	}
}
/* an application that looks at its budget: every getter brings the bucket up to date */
static void poll_limits(int i)
{
	(void)bufferevent_get_read_limit(bev[i]); (void)bufferevent_get_write_limit(bev[i]);
	(void)bufferevent_get_max_to_read(bev[i]); (void)bufferevent_get_max_to_write(bev[i]);
	MC_COUNT("limit_polls");
}

/* "should make progress": limited, user-enabled, data available, reference budget remaining */
static int cond(int i, int d)
{
	if (!M.limited[i] && !M.member[i]) return 0;
	if (!M.en[i][d]) return 0;
	if (d == W && evbuffer_get_length(bufferevent_get_output(bev[i])) == 0) return 0;
	if (M.limited[i] && own[i][d].lo <= 0) return 0;
	if (M.member[i] && gbk[d].lo <= 0) return 0;
	return 1;
}
static void progress_check(void)
{
	for (int i = 0; i < nbev && !dead; i++) for (int d = 0; d < 2 && !dead; d++) {
		int c = cond(i, d);
		if (!c) { M.cond_since[i][d] = -1; continue; }
		if (M.op_bytes[i][d] > 0 || M.cond_since[i][d] < 0) {
			if (M.op_bytes[i][d] > 0) MC_COUNT("progress_seen_while_due");
			M.cond_since[i][d] = vclock_us; continue;
		}
		MC_COUNT("progress_checks_pending");
		if (vclock_us - M.cond_since[i][d] >= TICK_US) {
			char key[160];
			struct bufferevent_private *p = BEV_UPCAST(bev[i]);
			struct bufferevent_rate_limit *rl = p->rate_limiting;
			/* signature of one specific defect (only used to key the failure): the implementation's own
			 * bucket is positive, the direction is still suspended for bandwidth and waits for the
			 * shared refill timer, which the other direction keeps re-arming */
			int waits = rl && rl->cfg && ((d == R ? p->read_suspended : p->write_suspended) & BEV_SUSPEND_BW) &&
			    (d == R ? rl->limit.read_limit : rl->limit.write_limit) > 0 &&
			    event_pending(&rl->refill_bucket_event, EV_TIMEOUT, NULL);
			snprintf(key, sizeof key, "C22/%s/%s/stalled%s", M.member[i] ? (M.limited[i] ? "bev+group" : "group-member") : "bev", dname[d],
			    waits ? "/positive-bucket-waits-for-postponed-refill-timer" : "");
			mc_fail(key, "bev %d: enabled, data available and budget remaining (own %ld, group %ld) since %lld us, no byte moved by %lld us",
			    i, M.limited[i] ? own[i][d].lo : -1, M.member[i] ? gbk[d].lo : -1, (long long)M.cond_since[i][d], (long long)vclock_us);
			dead = 1;
		}
	}
}

/* ------------------------------------------------------------------ */
static uint64_t h_ev(uint64_t h, struct event *ev)
{
	int fl = ev->ev_evcallback.evcb_flags & (EVLIST_INSERTED|EVLIST_TIMEOUT|EVLIST_ACTIVE|EVLIST_ACTIVE_LATER|EVLIST_INIT);
	h = mc_hash_u64(h, (uint64_t)fl);
	if (fl & EVLIST_TIMEOUT) {
		int64_t mono = 100000LL * 1000000 + vclock_us;    /* vclock.c: monotonic clocks start at 100000 s */
		h = mc_hash_u64(h, (uint64_t)((int64_t)ev->ev_timeout.tv_sec * 1000000 + ev->ev_timeout.tv_usec - mono));
	}
	return h;
}
static uint64_t h_bucket(uint64_t h, struct ev_token_bucket *b, unsigned tick_now)
{
	h = mc_hash_u64(h, (uint64_t)b->read_limit); h = mc_hash_u64(h, (uint64_t)b->write_limit);
	return mc_hash_u64(h, (uint64_t)(tick_now - b->last_updated));
}
static uint64_t h_bk(uint64_t h, struct bk *b)
{
	h = mc_hash_u64(h, (uint64_t)b->on);
	if (!b->on) return h;
	h = mc_hash_u64(h, (uint64_t)b->rate); h = mc_hash_u64(h, (uint64_t)b->burst); h = mc_hash_u64(h, (uint64_t)b->lo);
	h = mc_hash_u64(h, (uint64_t)b->cur); h = mc_hash_u64(h, (uint64_t)b->mprev); h = mc_hash_u64(h, (uint64_t)b->credit);
	h = mc_hash_u64(h, (uint64_t)b->since_credit);
	return mc_hash_u64(h, b->credit_tick < 0 ? (uint64_t)-1 : (uint64_t)(cur_tick - b->credit_tick));
}
/* Canonical state.  The remaining operations are API calls on the bufferevents /
 * the group, clock advances by half or whole ticks and loop runs.  Their effect
 * depends on: per bufferevent the enabled mask, suspend bits, output length
 * (input is always drained by the read callback), max_single values, own bucket
 * (levels, last update relative to the current tick), which cfg, membership,
 * the two socket events and the refill timer (queue flags, deadline relative to
 * now); for the group its bucket, suspend/pending bits, min_share, member order
 * (list order decides the round-robin start), the weak-random seed and the refill
 * timer; the position of now inside the tick; the kernel queues (always PEND
 * unread bytes towards each bufferevent after top-up, nothing towards the peer).
 * Plus the oracle's own state (window statistics, reference levels, progress
 * clocks — relative to now).  Absolute time only enters libevent through tick
 * numbers and deadlines, both hashed relative to now. */
static uint64_t canon(void)
{
	uint64_t h = mc_hash_u64(0x22, (uint64_t)nbev);
	struct timeval tv; unsigned tick_now;
	evutil_gettimeofday(&tv, NULL);
	tick_now = ev_token_bucket_get_tick_(&tv, cfgA);
	h = mc_hash_u64(h, (uint64_t)(vclock_us % TICK_US));
	for (int i = 0; i < nbev; i++) {
		struct bufferevent_private *p = BEV_UPCAST(bev[i]);
		h = mc_hash_u64(h, (uint64_t)bev[i]->enabled);
		h = mc_hash_u64(h, (uint64_t)p->read_suspended | (uint64_t)p->write_suspended << 16);
		h = mc_hash_u64(h, evbuffer_get_length(bev[i]->output)); h = mc_hash_u64(h, evbuffer_get_length(bev[i]->input));
		h = mc_hash_u64(h, (uint64_t)p->max_single_read); h = mc_hash_u64(h, (uint64_t)p->max_single_write);
		h = h_ev(h, &bev[i]->ev_read); h = h_ev(h, &bev[i]->ev_write);
		h = mc_hash_u64(h, (uint64_t)(p->rate_limiting != NULL));
		if (p->rate_limiting) {
			struct bufferevent_rate_limit *rl = p->rate_limiting;
			h = mc_hash_u64(h, rl->cfg == NULL ? 0 : rl->cfg == cfgA ? 1 : 2);
			h = mc_hash_u64(h, (uint64_t)(rl->group != NULL));
			if (rl->cfg) h = h_bucket(h, &rl->limit, tick_now);
			else { h = mc_hash_u64(h, (uint64_t)rl->limit.read_limit); h = mc_hash_u64(h, (uint64_t)rl->limit.write_limit); }
			h = h_ev(h, &rl->refill_bucket_event);
		}
		for (int d = 0; d < 2; d++) {
			h = mc_hash_u64(h, (uint64_t)M.en[i][d]); h = mc_hash_u64(h, (uint64_t)M.maxsingle[i][d]);
			h = mc_hash_u64(h, M.cond_since[i][d] < 0 ? (uint64_t)-1 : (uint64_t)(vclock_us - M.cond_since[i][d]));
			h = h_bk(h, &own[i][d]);
		}
		h = mc_hash_u64(h, (uint64_t)M.limited[i] | (uint64_t)M.member[i] << 4);
		h = mc_hash_u64(h, M.kpend[i]);
	}
	if (grp) {
		struct bufferevent_private *p;
		h = h_bucket(h, &grp->rate_limit, tick_now);
		h = mc_hash_u64(h, (uint64_t)grp->read_suspended | (uint64_t)grp->write_suspended << 1 |
		    (uint64_t)grp->pending_unsuspend_read << 2 | (uint64_t)grp->pending_unsuspend_write << 3);
		h = mc_hash_u64(h, (uint64_t)grp->min_share); h = mc_hash_u64(h, (uint64_t)grp->configured_min_share);
		h = mc_hash_u64(h, (uint64_t)grp->n_members); h = mc_hash_u64(h, (uint64_t)grp->weakrand_seed.seed);
		LIST_FOREACH(p, &grp->members, rate_limiting->next_in_group)
			for (int i = 0; i < nbev; i++) if (BEV_UPCAST(bev[i]) == p) h = mc_hash_u64(h, (uint64_t)i + 100);
		h = h_ev(h, &grp->master_refill_event);
		h = h_bk(h, &gbk[R]); h = h_bk(h, &gbk[W]);
	}
	return h;
}

/* ------------------------------------------------------------------ */
static void set_limit(int i, int which)   /* 0 unset, 1 cfgA, 2 cfgB */
{
	struct ev_token_bucket_cfg *c = which == 1 ? cfgA : which == 2 ? cfgB : NULL;
	long rate = which == 1 ? 100 : 50, burst = which == 1 ? burstA : 100;
	bufferevent_set_rate_limit(bev[i], c);
	if (which == M.limited[i]) return;                    /* documented no-op */
	for (int d = 0; d < 2; d++) {
		if (!which) own[i][d].on = 0;
		else if (M.limited[i]) bk_reconfig(&own[i][d], rate, burst);
		else bk_config(&own[i][d], rate, burst);
	}
	M.limited[i] = which;
}

static void init(void)
{
	mcx_alloc_install();
	event_set_log_callback(logcb);
	memset(payload, 'y', sizeof payload);
}

static void body(void)
{
	static int fd_base = -1;   /* lowest free descriptor at baseline; executions use < 64 descriptors */
	int D = mc_param("depth", 5);
	long live0 = mcx_alloc_live();
	struct timeval tick = { 1, 0 };
	int lim0 = mc_param("lim0", 1);       /* bufferevents start limited (cfgA) */
	int grp0 = mc_param("grp0", 0);       /* bufferevents start as group members */
	int minshare = mc_param("minshare", -1);
	int full = mc_param("full", 0);       /* larger alphabet: second cfg, group decrements */
	int idle0 = mc_param("idle0", 0);     /* preamble: reading never enabled, idle0 idle ticks, limits polled every tick */
	int adv3 = mc_param("adv3", 0);       /* extra op: three idle ticks in a row */
	burstA = mc_param("burstA", 200); gburst = mc_param("gburst", 300);
	gwrate = mc_param("gwrate", 150); gwburst = mc_param("gwburst", (int)gburst);
	nbev = mc_param("nbev", 1); if (nbev > NB) nbev = NB;
	use_group = mc_param("group", 0);
	if (fd_base < 0) { fd_base = dup(0); close(fd_base); }

	vclock_reset(); vclock_idle_hook = idle; vclock_block_hook = NULL;
	dead = 0; n_io_calls = n_cb = 0; cur_tick = 0;
	memset(&M, 0, sizeof M); memset(own, 0, sizeof own); memset(gbk, 0, sizeof gbk);
	grp = NULL; cfgA = cfgB = gcfg = NULL;
	for (int i = 0; i < NB; i++) { bev[i] = NULL; fd[i][0] = fd[i][1] = -1; }

	base = event_base_new();
	if (!base) { mc_fail("C22/harness/setup", "event_base_new"); return; }
	base->weakrand_seed.seed = 4242;
	cfgA = ev_token_bucket_cfg_new(100, (size_t)burstA, 100, (size_t)burstA, &tick);
	cfgB = ev_token_bucket_cfg_new(50, 100, 50, 100, &tick);
	gcfg = ev_token_bucket_cfg_new(150, (size_t)gburst, (size_t)gwrate, (size_t)gwburst, &tick);
	if (!cfgA || !cfgB || !gcfg) { mc_fail("C22/harness/setup", "cfg_new"); goto out; }
	if (use_group) {
		grp = bufferevent_rate_limit_group_new(base, gcfg);
		if (!grp) { mc_fail("C22/harness/setup", "group_new"); goto out; }
		grp->weakrand_seed.seed = 777;
		if (minshare >= 0) bufferevent_rate_limit_group_set_min_share(grp, (size_t)minshare);
		bk_config(&gbk[R], 150, gburst); bk_config(&gbk[W], gwrate, gwburst);
	}
	for (int i = 0; i < nbev; i++) {
		if (socketpair(AF_UNIX, SOCK_STREAM | SOCK_NONBLOCK, 0, fd[i]) < 0) { mc_fail("C22/harness/setup", "socketpair"); goto out; }
		bev[i] = bufferevent_socket_new(base, fd[i][0], 0);
		if (!bev[i]) { mc_fail("C22/harness/setup", "bufferevent_socket_new"); goto out; }
		bufferevent_setcb(bev[i], readcb, writecb, eventcb, NULL);
		M.maxsingle[i][R] = M.maxsingle[i][W] = 16384;
		M.cond_since[i][R] = M.cond_since[i][W] = -1;
		if (lim0) set_limit(i, 1);
		if (grp && grp0) { bufferevent_add_to_rate_limit_group(bev[i], grp); M.member[i] = 1; }
		bufferevent_enable(bev[i], idle0 ? EV_WRITE : EV_READ | EV_WRITE);
		M.en[i][R] = !idle0; M.en[i][W] = 1;
	}
	loop_steps();
	progress_check();
	/* idle preamble: buckets fill up and stay full while the application keeps polling its budget
	 * (groups are brought up to date by their refill timer every tick anyway) */
	for (int k = 0; k < idle0 && !dead; k++) {
		advance_clock(TICK_US);
		loop_steps();
		for (int i = 0; i < nbev; i++) poll_limits(i);
		progress_check();
	}
	for (int i = 0; i < nbev; i++) M.op_bytes[i][R] = M.op_bytes[i][W] = 0;

	enum { OP_END, OP_ADV, OP_ADV_HALF, OP_ADV3 };     /* then the per-bufferevent sub-alphabets, then the group ops */
	enum { B_WRITE50, B_WRITE1000, B_DECR_R_POS, B_DECR_R_NEG, B_DECR_W_POS, B_DECR_W_NEG,
	       B_MAXR, B_MAXW, B_MAXDEF, B_LIMIT, B_UNLIMIT, B_JOIN, B_LEAVE,
	       B_EN_R, B_DIS_R, B_EN_W, B_DIS_W, B_LIMIT_B, B_POLL, N_BOPS };
	enum { G_DECR_R_POS, G_DECR_R_NEG, G_DECR_W_POS, G_DECR_W_NEG, N_GOPS };
	/* -P bops=<bit mask over the B_ operations> selects the per-bufferevent sub-alphabet of a run */
	int bmap[N_BOPS], nb_ops = 0;
	unsigned mask = (unsigned)mc_param("bops", full ? (1 << B_POLL) - 1 : (1 << B_LIMIT_B) - 1);
	int nglob = adv3 ? 4 : 3;             /* END, ADV, ADV_HALF [, ADV3] */
	for (int b = 0; b < N_BOPS; b++) if (mask & (1u << b)) bmap[nb_ops++] = b;
	int n_ops = nglob + nbev * nb_ops + (grp && mc_param("gops", full) ? N_GOPS : 0);
	for (int step = 0; step < D && !dead; step++) {
		int op = mc_choose(n_ops, 0, "op");
		if (op == OP_END) break;
		if (op == OP_ADV || op == OP_ADV_HALF) {
			advance_clock(op == OP_ADV ? TICK_US : TICK_US / 2);
			mc_observe("adv(%s) ", op == OP_ADV ? "1" : "1/2");
		} else if (adv3 && op == OP_ADV3) {
			/* three ticks one after the other; the last one is finished by the common code below */
			for (int k = 0; k < 2 && !dead; k++) {
				advance_clock(TICK_US);
				loop_steps();
				if (!dead) progress_check();
				for (int i = 0; i < nbev; i++) {
					mc_observe("[%ld,%ld] ", M.op_bytes[i][R], M.op_bytes[i][W]);
					M.op_bytes[i][R] = M.op_bytes[i][W] = 0;
				}
			}
			advance_clock(TICK_US);
			mc_observe("adv(3) ");
		} else if (op < nglob + nbev * nb_ops) {
			int i = (op - nglob) / nb_ops, b = bmap[(op - nglob) % nb_ops];
			struct bufferevent_private *p = BEV_UPCAST(bev[i]);
			switch (b) {
			case B_WRITE50: case B_WRITE1000: {
				size_t n = b == B_WRITE50 ? 50 : 1000;
				bufferevent_write(bev[i], payload, n);
				mc_observe("w%d(%zu) ", i, n); break; }
			case B_DECR_R_POS: case B_DECR_R_NEG: case B_DECR_W_POS: case B_DECR_W_NEG: {
				int d = (b == B_DECR_R_POS || b == B_DECR_R_NEG) ? R : W;
				long decr = (b == B_DECR_R_POS || b == B_DECR_W_POS) ? 150 : -300;
				if (!M.limited[i]) { mc_observe("decr%d-na ", i); break; }   /* API requires an own limit (asserted) */
				if (d == R) bufferevent_decrement_read_limit(bev[i], decr);
				else bufferevent_decrement_write_limit(bev[i], decr);
				bk_decr(&own[i][d], decr, cur_tick);
				mc_observe("decr%d%c(%ld) ", i, d == R ? 'R' : 'W', decr); break; }
			case B_MAXR: bufferevent_set_max_single_read(bev[i], 30); M.maxsingle[i][R] = 30; mc_observe("maxR%d ", i); break;
			case B_MAXW: bufferevent_set_max_single_write(bev[i], 30); M.maxsingle[i][W] = 30; mc_observe("maxW%d ", i); break;
			case B_MAXDEF:
				bufferevent_set_max_single_read(bev[i], 0); bufferevent_set_max_single_write(bev[i], 0);
				M.maxsingle[i][R] = M.maxsingle[i][W] = 16384; mc_observe("maxdef%d ", i); break;
			case B_LIMIT: set_limit(i, 1); mc_observe("lim%d ", i); break;
			case B_LIMIT_B: set_limit(i, 2); mc_observe("limB%d ", i); break;
			case B_UNLIMIT: set_limit(i, 0); mc_observe("unlim%d ", i); break;
			case B_JOIN:
				if (!grp) { mc_observe("join-na "); break; }
				bufferevent_add_to_rate_limit_group(bev[i], grp); M.member[i] = 1; mc_observe("join%d ", i); break;
			case B_LEAVE:
				if (!grp) { mc_observe("leave-na "); break; }
				bufferevent_remove_from_rate_limit_group(bev[i]); M.member[i] = 0; mc_observe("leave%d ", i); break;
			case B_EN_R: bufferevent_enable(bev[i], EV_READ); M.en[i][R] = 1; mc_observe("enR%d ", i); break;
			case B_DIS_R: bufferevent_disable(bev[i], EV_READ); M.en[i][R] = 0; mc_observe("disR%d ", i); break;
			case B_EN_W: bufferevent_enable(bev[i], EV_WRITE); M.en[i][W] = 1; mc_observe("enW%d ", i); break;
			case B_DIS_W: bufferevent_disable(bev[i], EV_WRITE); M.en[i][W] = 0; mc_observe("disW%d ", i); break;
			case B_POLL: poll_limits(i); mc_observe("poll%d ", i); break;
			}
			(void)p;
		} else {
			int g = op - nglob - nbev * nb_ops;
			int d = (g == G_DECR_R_POS || g == G_DECR_R_NEG) ? R : W;
			long decr = (g == G_DECR_R_POS || g == G_DECR_W_POS) ? 150 : -300;
			if (d == R) bufferevent_rate_limit_group_decrement_read(grp, decr);
			else bufferevent_rate_limit_group_decrement_write(grp, decr);
			bk_decr(&gbk[d], decr, cur_tick);
			mc_observe("gdecr%c(%ld) ", d == R ? 'R' : 'W', decr);
		}
		loop_steps();
		if (dead) break;
		progress_check();
		for (int i = 0; i < nbev; i++) {
			mc_observe("[%ld,%ld] ", M.op_bytes[i][R], M.op_bytes[i][W]);
			if (M.op_bytes[i][R]) MC_COUNTN("bytes_read", (uint64_t)M.op_bytes[i][R]);
			if (M.op_bytes[i][W]) MC_COUNTN("bytes_written", (uint64_t)M.op_bytes[i][W]);
			M.op_bytes[i][R] = M.op_bytes[i][W] = 0;
		}
		if (dead) break;
		if (mc_state(canon(), D - 1 - step)) break;
	}
out:
	for (int i = 0; i < nbev; i++) {
		if (bev[i]) {
			if (grp) bufferevent_remove_from_rate_limit_group(bev[i]);
			bufferevent_free(bev[i]);
		}
	}
	if (base) event_base_loop(base, EVLOOP_NONBLOCK);
	if (grp) bufferevent_rate_limit_group_free(grp);
	if (base) { struct event_base *b = base; base = NULL; event_base_free(b); }
	if (cfgA) ev_token_bucket_cfg_free(cfgA);
	if (cfgB) ev_token_bucket_cfg_free(cfgB);
	if (gcfg) ev_token_bucket_cfg_free(gcfg);
	for (int i = 0; i < NB; i++) { if (fd[i][0] >= 0) close(fd[i][0]); if (fd[i][1] >= 0) close(fd[i][1]); }
	grp = NULL;
	if (mcx_alloc_live() != live0) mc_fail("C22/hygiene/leak", "%ld library allocations left", mcx_alloc_live() - live0);
	for (int f = fd_base; f < fd_base + 64; f++)
		if (fcntl(f, F_GETFD) != -1) { mc_fail("C22/hygiene/fdleak", "descriptor %d left open", f); close(f); }
}

/* freed blocks need not sit in a 256 MB quarantine: every execution frees all it allocated, and
 * recycling the heap early keeps the workers out of the page-fault path (4x faster) */
const char *__asan_default_options(void) { return "quarantine_size_mb=2"; }

int main(int c, char **v)
{
	struct mc_config cfg = { .property = "C22", .body = body, .init = init };
	return mc_main(c, v, &cfg);
}
