/* C23 — evhttp server request framing / parsing against an RFC 9112 reference
 * parser, for every segmentation of every stream of a grammar catalogue.
 *
 * Shard mode.  item = (stream of the catalogue, segmentation):
 *   segmentation 0            the whole stream in one write   (oracle b runs here)
 *   1 .. L-1                  one cut at byte k
 *   then (cuts=2 only)        every pair of cuts k1 < k2
 *   last                      byte-at-a-time
 * Oracle (a): the outcome (requests handed to the callback with all their
 *   fields, final status codes, connection closed or not, before and after the
 *   client's EOF) is identical to the unsegmented outcome of the same stream.
 * Oracle (b): the unsegmented outcome equals what models/rfc9112.c derives:
 *   every message the RFC requires to be accepted is delivered with identical
 *   method/target/version/fields/body; nothing is delivered for or after a
 *   message the RFC requires to be rejected; nothing is delivered beyond the
 *   reference's messages.  Messages that use RFC latitude may be rejected, but
 *   if delivered must equal the RFC's fixed interpretation; in may-either
 *   classes only (a) is demanded.
 */
#include "httpsrv.h"
#include "rfc9112.h"

/* ------------------------------------------------------------------ */
/* catalogue                                                            */

struct stream {
	unsigned char *b; size_t n; char tag[56]; char cls[40]; int group;
	int capcuts;               /* 0 = no cap, else at most this many cuts for this stream */
	int nsel; size_t *sel;     /* long streams: named cut positions (see stream_nsegs) */
};
static struct stream *cat; static int ncat, capcat;
static uint64_t *cum;           /* cum[i] = first item index of stream i; cum[ncat] = total */
static int max_cuts = 1, maxlen3 = 0;   /* triples of cuts only for streams of at most maxlen3 bytes */
static int cur_capcuts = 0;

enum { G_RL = 1, G_HS = 2, G_CH = 4, G_BL = 8, G_PIPE = 16, G_EOL = 32, G_LONG = 64, G_PIPE3 = 128, G_HS2 = 256 };

static void add_stream(int group, const char *tag, const char *suffix, const unsigned char *b, size_t n)
{
	if (ncat == capcat) { capcat = capcat ? capcat * 2 : 256; cat = realloc(cat, sizeof(*cat) * (size_t)capcat); }
	struct stream *s = &cat[ncat++];
	s->b = malloc(n + 1); memcpy(s->b, b, n); s->b[n] = 0; s->n = n; s->group = group;
	s->capcuts = cur_capcuts; s->nsel = 0; s->sel = NULL;
	if (group == G_LONG) {
		/* named cuts: 1, every 97th byte, every position in [960,1000] (an evbuffer chain holds
		 * 976 payload bytes: the first chain boundary of the connection's input buffer), n-1 */
		s->sel = malloc(sizeof(size_t) * 80);
		for (size_t c = 1; c < n; c++)
			if (c == 1 || c % 97 == 0 || (c >= 960 && c <= 1000) || c == n - 1) s->sel[s->nsel++] = c;
	}
	/* "class|variant": the class names the failure key, the variant only appears in messages */
	const char *bar = strchr(tag, '|');
	if (bar) { snprintf(s->cls, sizeof s->cls, "%.*s", (int)(bar - tag), tag); snprintf(s->tag, sizeof s->tag, "%.*s:%s%s", (int)(bar - tag), tag, bar + 1, suffix); }
	else { snprintf(s->cls, sizeof s->cls, "%s", tag); snprintf(s->tag, sizeof s->tag, "%s%s", tag, suffix); }
}

struct buf { unsigned char d[4096]; size_t n; };
static void bput(struct buf *b, const void *p, size_t n) { if (b->n + n <= sizeof b->d) { memcpy(b->d + b->n, p, n); b->n += n; } }
static void bputs(struct buf *b, const char *s) { bput(b, s, strlen(s)); }

#define PIPE2 "GET /2 HTTP/1.1\r\nHost: b\r\n\r\n"

/* message = line CRLF headers(lines, each already CRLF-terminated) CRLF body; variants: alone, +pipelined GET, optionally minus last byte */
static void add_msg(int group, const char *tag, const char *reqline, const char *hdrs, size_t hdrs_len,
    const char *body, size_t body_len, int with_pipe, int with_trunc)
{
	struct buf b; b.n = 0;
	bputs(&b, reqline); bputs(&b, "\r\n");
	bput(&b, hdrs, hdrs_len);
	bputs(&b, "\r\n");
	bput(&b, body, body_len);
	add_stream(group, tag, "", b.d, b.n);
	if (with_trunc && b.n > 1) add_stream(group, tag, "-trunc", b.d, b.n - 1);
	if (with_pipe) { bputs(&b, PIPE2); add_stream(group, tag, "+pipe", b.d, b.n); }
}

struct ent { const char *tag; const char *text; size_t len; };   /* len 0 → strlen */
#define E(tag, text) { tag, text, sizeof(text) - 1 }

static void build_catalogue(int groups)
{
	/* ---- request lines (Host only, no body) ---- */
	static const struct ent rls[] = {
		E("rl:GET", "GET / HTTP/1.1"), E("rl:POST", "POST /p HTTP/1.1"), E("rl:HEAD", "HEAD / HTTP/1.1"),
		E("rl:PUT", "PUT /p HTTP/1.1"), E("rl:DELETE", "DELETE /p HTTP/1.1"), E("rl:OPTIONS", "OPTIONS / HTTP/1.1"),
		E("rl:OPTIONS-asterisk", "OPTIONS * HTTP/1.1"), E("rl:TRACE", "TRACE / HTTP/1.1"),
		E("rl:CONNECT", "CONNECT h:1 HTTP/1.1"), E("rl:PATCH", "PATCH /p HTTP/1.1"),
		E("rl:PROPFIND", "PROPFIND /p HTTP/1.1"), E("rl:PROPPATCH", "PROPPATCH /p HTTP/1.1"),
		E("rl:MKCOL", "MKCOL /p HTTP/1.1"), E("rl:LOCK", "LOCK /p HTTP/1.1"), E("rl:UNLOCK", "UNLOCK /p HTTP/1.1"),
		E("rl:COPY", "COPY /p HTTP/1.1"), E("rl:MOVE", "MOVE /p HTTP/1.1"),
		E("rl:EXTB", "EXTB /p HTTP/1.1"), E("rl:EXTN", "EXTN /p HTTP/1.1"),
		E("rl:unknown-method", "FOO / HTTP/1.1"), E("rl:lowercase-method", "get / HTTP/1.1"),
		E("rl:method-prefix", "GETX / HTTP/1.1"), E("rl:short-method", "A / HTTP/1.1"),
		E("rl:method-not-token", "G(T / HTTP/1.1"),
		E("rl:query", "GET /a?b=c&d HTTP/1.1"), E("rl:absolute-form", "GET http://h/a HTTP/1.1"),
		E("rl:pct", "GET /a%20b/%41 HTTP/1.1"), E("rl:long-target", "GET /aaaaaaaaaaaaaaaaaaaaaaaaaaaaaaaaaaaaaaaaaaaaaaaaaaaaaaaaaaaaaaaa HTTP/1.1"),
		E("rl:http10", "GET / HTTP/1.0"), E("rl:http19", "GET / HTTP/1.9"), E("rl:http09", "GET / HTTP/0.9"),
		E("rl:http20", "GET / HTTP/2.0"),
		E("rl:ver-two-digit-minor", "GET / HTTP/1.10"), E("rl:ver-no-minor", "GET / HTTP/1."), E("rl:ver-no-dot", "GET / HTTP/1"),
		E("rl:ver-lowercase", "GET / http/1.1"), E("rl:ver-trailing-junk", "GET / HTTP/1.1x"), E("rl:ver-nodot2", "GET / HTTP/11"),
		E("rl:ver-name", "GET / HTTPS/1.1"), E("rl:ver-signed", "GET / HTTP/+1.1"), E("rl:ver-space", "GET / HTTP/ 1.1"),
		E("rl:no-version", "GET /"), E("rl:one-word", "GET"), E("rl:two-words-long", "GET /aaaaaaaaaaaaaaaa"),
		E("rl:trailing-space", "GET / HTTP/1.1 "), E("rl:double-space-1", "GET  / HTTP/1.1"), E("rl:double-space-2", "GET /  HTTP/1.1"),
		E("rl:tabs", "GET\t/\tHTTP/1.1"), E("rl:leading-space", " GET / HTTP/1.1"), E("rl:target-space", "GET /a b HTTP/1.1"),
		E("rl:leading-crlf", "\r\nGET / HTTP/1.1"), E("rl:leading-crlf2", "\r\n\r\nGET / HTTP/1.1"),
		E("rl:bare-cr", "GET /a\rb HTTP/1.1"),
	};
	if (groups & G_RL)
		for (size_t i = 0; i < sizeof rls / sizeof rls[0]; i++)
			add_msg(G_RL, rls[i].tag, rls[i].text, "Host: a\r\n", 9, "", 0, 1, 0);

	/* ---- header sets on POST with a 3-byte body "abc" ---- */
	static const struct ent hss[] = {
		E("hs:cl", "Content-Length: 3\r\n"),
		E("hs:host-cl", "Host: a\r\nContent-Length: 3\r\n"),
		E("hs:ows-none", "X:v\r\nContent-Length:3\r\n"),
		E("hs:ows-spaces", "Y:   v  \r\nContent-Length:   3   \r\n"),
		E("hs:ows-tab|x", "Z:\tv\t\r\nContent-Length: 3\r\n"),
		E("hs:ows-tab|cl", "Content-Length:\t3\t\r\n"),
		E("hs:empty-value", "X:\r\nY: \r\nContent-Length: 3\r\n"),
		E("hs:inner-ws", "X: a  b\tc\r\nContent-Length: 3\r\n"),
		E("hs:colon-in-value", "X: a:b: c\r\nContent-Length: 3\r\n"),
		E("hs:dup-field", "X: 1\r\nX: 2\r\nx: 3\r\nContent-Length: 3\r\n"),
		E("hs:name-case", "content-LENGTH: 3\r\n"),
		E("hs:obs-text", "X: caf\xe9\r\nContent-Length: 3\r\n"),
		E("hs:obs-fold", "X: a\r\n b\r\nContent-Length: 3\r\n"),
		E("hs:obs-fold-multi", "X: a\r\n\tb  \r\n   c\r\nContent-Length: 3\r\n"),
		E("hs:obs-fold-cl", "Content-Length:\r\n 3\r\n"),
		E("hs:obs-fold-cl-digits", "Content-Length: 1\r\n 3\r\n"),
		E("hs:ws-first-line", " X: a\r\nContent-Length: 3\r\n"),
		E("hs:ws-colon|host", "Host : a\r\nContent-Length: 3\r\n"),
		E("hs:ws-colon|cl-sp", "Content-Length : 3\r\n"),
		E("hs:ws-colon|cl-tab", "Content-Length\t: 3\r\n"),
		E("hs:no-colon", "garbage\r\nContent-Length: 3\r\n"),
		E("hs:empty-name", ": v\r\nContent-Length: 3\r\n"),
		E("hs:name-with-space", "Na me: v\r\nContent-Length: 3\r\n"),
		E("hs:name-not-token", "N(ame: v\r\nContent-Length: 3\r\n"),
		E("hs:bare-cr-value", "X: a\rb\r\nContent-Length: 3\r\n"),
		E("hs:bare-cr-sp-value", "X: a\r b\r\nContent-Length: 3\r\n"),
		E("hs:nul-value", "X: a\0b\r\nContent-Length: 3\r\n"),
		E("hs:cl-dup-same", "Content-Length: 3\r\nContent-Length: 3\r\n"),
		E("hs:cl-dup-differ|3-4", "Content-Length: 3\r\nContent-Length: 4\r\n"),
		E("hs:cl-dup-differ|4-3", "Content-Length: 4\r\nContent-Length: 3\r\n"),
		E("hs:cl-dup-differ|0-3", "Content-Length: 0\r\nContent-Length: 3\r\n"),
		E("hs:cl-list-same", "Content-Length: 3, 3\r\n"),
		E("hs:cl-list-differ", "Content-Length: 3, 4\r\n"),
		E("hs:cl-signed|plus", "Content-Length: +3\r\n"),
		E("hs:cl-signed|minus-zero", "Content-Length: -0\r\n"),
		E("hs:cl-signed|negative", "Content-Length: -3\r\n"),
		E("hs:cl-hex", "Content-Length: 0x3\r\n"),
		E("hs:cl-trailing-junk", "Content-Length: 3x\r\n"),
		E("hs:cl-inner-space", "Content-Length: 3 4\r\n"),
		E("hs:cl-empty", "Content-Length:\r\n"),
		E("hs:cl-leading-zeros", "Content-Length: 003\r\n"),
		E("hs:cl-decimal", "Content-Length: 3.0\r\n"),
		E("hs:cl-huge", "Content-Length: 99999999999999999999\r\n"),
		E("hs:cl-2pow64-plus3", "Content-Length: 18446744073709551619\r\n"),
		E("hs:cl-0", "Content-Length: 0\r\n"),
		E("hs:no-framing", "X: y\r\n"),
		E("hs:expect-100", "Expect: 100-continue\r\nContent-Length: 3\r\n"),
		E("hs:expect-100-case", "Expect: 100-Continue\r\nContent-Length: 3\r\n"),
		E("hs:expect-other", "Expect: foo\r\nContent-Length: 3\r\n"),
		E("hs:conn-close", "Connection: close\r\nContent-Length: 3\r\n"),
		E("hs:conn-keepalive", "Connection: keep-alive\r\nContent-Length: 3\r\n"),
		E("hs:te-not-chunked+cl|identity", "Transfer-Encoding: identity\r\nContent-Length: 3\r\n"),
		E("hs:te-not-chunked+cl|gzip", "Transfer-Encoding: gzip\r\nContent-Length: 3\r\n"),
		E("hs:many", "A: 1\r\nB: 2\r\nC: 3\r\nD: 4\r\nE: 5\r\nF: 6\r\nG: 7\r\nH: 8\r\nI: 9\r\nJ: 10\r\nK: 11\r\nL: 12\r\nContent-Length: 3\r\n"),
	};
	if (groups & G_HS)
		for (size_t i = 0; i < sizeof hss / sizeof hss[0]; i++)
			add_msg(G_HS, hss[i].tag, "POST /p HTTP/1.1", hss[i].text, hss[i].len, "abc", 3, 1, 1);

	/* ---- Transfer-Encoding header sets with a one-chunk body ---- */
	static const struct ent tes[] = {
		E("te:chunked", "Transfer-Encoding: chunked\r\n"),
		E("te:chunked-case", "transfer-encoding: ChUnKeD\r\n"),
		E("te:chunked-ows", "Transfer-Encoding:   chunked  \r\n"),
		E("te:list-ending-chunked|gzip", "Transfer-Encoding: gzip, chunked\r\n"),
		E("te:list-ending-chunked|gzip-nospace", "Transfer-Encoding: gzip,chunked\r\n"),
		E("te:list-ending-chunked|two-fields", "Transfer-Encoding: gzip\r\nTransfer-Encoding: chunked\r\n"),
		E("te:final-not-chunked|chunked-gzip", "Transfer-Encoding: chunked, gzip\r\n"),
		E("te:final-not-chunked|identity", "Transfer-Encoding: identity\r\n"),
		E("te:final-not-chunked|gzip", "Transfer-Encoding: gzip\r\n"),
		E("te:final-not-chunked|two-fields", "Transfer-Encoding: chunked\r\nTransfer-Encoding: gzip\r\n"),
		E("te:chunked-twice", "Transfer-Encoding: chunked, chunked\r\n"),
		E("te:chunked+cl", "Transfer-Encoding: chunked\r\nContent-Length: 3\r\n"),
		E("te:cl+chunked", "Content-Length: 3\r\nTransfer-Encoding: chunked\r\n"),
		E("te:list-ending-chunked|gzip+cl", "Transfer-Encoding: gzip, chunked\r\nContent-Length: 3\r\n"),
		E("te:expect-100", "Expect: 100-continue\r\nTransfer-Encoding: chunked\r\n"),
		E("te:conn-close", "Connection: close\r\nTransfer-Encoding: chunked\r\n"),
	};
	if (groups & G_HS)
		for (size_t i = 0; i < sizeof tes / sizeof tes[0]; i++)
			add_msg(G_HS, tes[i].tag, "POST /p HTTP/1.1", tes[i].text, tes[i].len, "3\r\nabc\r\n0\r\n\r\n", 13, 1, 0);
	if (groups & G_HS) {
		add_msg(G_HS, "te:http10", "POST /p HTTP/1.0", "Transfer-Encoding: chunked\r\n", 28, "3\r\nabc\r\n0\r\n\r\n", 13, 1, 0);
		add_msg(G_HS, "hs:http10-cl", "POST /p HTTP/1.0", "Content-Length: 3\r\n", 19, "abc", 3, 1, 1);
	}

	/* ---- chunked bodies ---- */
	static const struct ent chs[] = {
		E("ch:empty", "0\r\n\r\n"),
		E("ch:one", "3\r\nabc\r\n0\r\n\r\n"),
		E("ch:two", "1\r\na\r\n2\r\nbc\r\n0\r\n\r\n"),
		E("ch:hex-lower", "a\r\n0123456789\r\n0\r\n\r\n"),
		E("ch:hex-upper", "A\r\n0123456789\r\n0\r\n\r\n"),
		E("ch:hex-two-digits", "1b\r\n012345678901234567890123456\r\n0\r\n\r\n"),
		E("ch:leading-zeros", "003\r\nabc\r\n000\r\n\r\n"),
		E("ch:data-with-crlf", "5\r\na\r\nbc\r\n0\r\n\r\n"),
		E("ch:data-looks-like-chunk", "8\r\n0\r\n\r\nGET\r\n0\r\n\r\n"),
		E("ch:ext|name", "3;x\r\nabc\r\n0\r\n\r\n"),
		E("ch:ext|name-value", "3;x=y\r\nabc\r\n0\r\n\r\n"),
		E("ch:ext|quoted", "3;x=\"q;\\\"z\"\r\nabc\r\n0\r\n\r\n"),
		E("ch:ext|bws", "3 ; x = y\r\nabc\r\n0\r\n\r\n"),
		E("ch:ext|multi", "3;x=y;z\r\nabc\r\n0\r\n\r\n"),
		E("ch:ext|last-chunk", "3\r\nabc\r\n0;x=y\r\n\r\n"),
		E("ch:trailer", "3\r\nabc\r\n0\r\nT: v\r\n\r\n"),
		E("ch:trailer-two", "3\r\nabc\r\n0\r\nT: v\r\nU:  w \r\n\r\n"),
		E("ch:trailer-cl", "3\r\nabc\r\n0\r\nContent-Length: 9\r\n\r\n"),
		E("ch:trailer-ws-colon", "3\r\nabc\r\n0\r\nT : v\r\n\r\n"),
		E("ch:trailer-no-colon", "3\r\nabc\r\n0\r\nnocolon\r\n\r\n"),
		E("ch:trailer-obs-fold", "3\r\nabc\r\n0\r\nT: v\r\n w\r\n\r\n"),
		E("ch:size-0x", "0x3\r\nabc\r\n0\r\n\r\n"),
		E("ch:size-negative", "-1\r\nabc\r\n0\r\n\r\n"),
		E("ch:size-minus-zero", "3\r\nabc\r\n-0\r\n\r\n"),
		E("ch:size-leading-space", " 3\r\nabc\r\n0\r\n\r\n"),
		E("ch:size-leading-tab", "\t3\r\nabc\r\n0\r\n\r\n"),
		E("ch:size-plus", "+3\r\nabc\r\n0\r\n\r\n"),
		E("ch:size-trailing-junk", "3g\r\nabc\r\n0\r\n\r\n"),
		E("ch:size-not-hex", "g\r\nabc\r\n0\r\n\r\n"),
		E("ch:blank-line-for-chunk-size|first", "\r\n3\r\nabc\r\n0\r\n\r\n"),
		E("ch:size-trailing-ws|space", "3 \r\nabc\r\n0\r\n\r\n"),
		E("ch:size-trailing-ws|tab", "3\t\r\nabc\r\n0\r\n\r\n"),
		E("ch:size-space-junk", "3 x\r\nabc\r\n0\r\n\r\n"),
		E("ch:size-17-hexdigits", "FFFFFFFFFFFFFFFFF\r\nabc\r\n0\r\n\r\n"),
		E("ch:size-2pow64-plus3", "10000000000000003\r\nabc\r\n0\r\n\r\n"),
		E("ch:size-2pow63", "8000000000000000\r\nabc\r\n0\r\n\r\n"),
		E("ch:size-2pow63-minus1", "7FFFFFFFFFFFFFFF\r\nabc\r\n0\r\n\r\n"),
		E("ch:size-2pow32-plus3", "100000003\r\nabc\r\n0\r\n\r\n"),
		E("ch:no-crlf-after-data", "3\r\nabc0\r\n\r\n"),
		E("ch:extra-byte-after-data", "3\r\nabcd\r\n0\r\n\r\n"),
		E("ch:lf-only-after-data-junk", "3\r\nabc\rX\n0\r\n\r\n"),
		E("ch:blank-line-for-chunk-size|between-chunks", "3\r\nabc\r\n\r\n0\r\n\r\n"),
		E("ch:bare-lf", "3\nabc\n0\n\n"),
		E("ch:trunc-size", "3"),
		E("ch:trunc-data", "3\r\nab"),
		E("ch:trunc-after-data", "3\r\nabc"),
		E("ch:trunc-after-data-cr", "3\r\nabc\r"),
		E("ch:trunc-before-last", "3\r\nabc\r\n"),
		E("ch:trunc-last-size", "3\r\nabc\r\n0"),
		E("ch:trunc-trailer", "3\r\nabc\r\n0\r\n"),
		E("ch:trunc-trailer-cr", "3\r\nabc\r\n0\r\n\r"),
		E("ch:trunc-trailer-field", "3\r\nabc\r\n0\r\nT: v\r\n"),
	};
	if (groups & G_CH)
		for (size_t i = 0; i < sizeof chs / sizeof chs[0]; i++)
			add_msg(G_CH, chs[i].tag, "POST /p HTTP/1.1", "Transfer-Encoding: chunked\r\n", 28, chs[i].text, chs[i].len,
			    strncmp(chs[i].tag, "ch:trunc", 8) != 0, 0);

	/* ---- methods libevent registers without a body × body framing ---- */
	static const struct ent bls[] = {
		E("bl:GET", "GET /p HTTP/1.1"), E("bl:no-body-flag|HEAD", "HEAD /p HTTP/1.1"), E("bl:no-body-flag|TRACE", "TRACE /p HTTP/1.1"),
		E("bl:DELETE", "DELETE /p HTTP/1.1"), E("bl:OPTIONS", "OPTIONS /p HTTP/1.1"), E("bl:CONNECT", "CONNECT h:1 HTTP/1.1"),
		E("bl:no-body-flag|EXTN", "EXTN /p HTTP/1.1"), E("bl:EXTB", "EXTB /p HTTP/1.1"), E("bl:unknown-method", "FOO /p HTTP/1.1"),
	};
	if (groups & G_BL)
		for (size_t i = 0; i < sizeof bls / sizeof bls[0]; i++) {
			char tag[56];
			snprintf(tag, sizeof tag, strchr(bls[i].tag, '|') ? "%s-cl" : "%s|cl", bls[i].tag);
			add_msg(G_BL, tag, bls[i].text, "Content-Length: 3\r\n", 19, "abc", 3, 1, 1);
			snprintf(tag, sizeof tag, strchr(bls[i].tag, '|') ? "%s-chunked" : "%s|chunked", bls[i].tag);
			add_msg(G_BL, tag, bls[i].text, "Transfer-Encoding: chunked\r\n", 28, "3\r\nabc\r\n0\r\n\r\n", 13, 1, 0);
		}

	/* ---- two pipelined messages and persistence ---- */
	static const struct ent firsts[] = {
		E("pp:get11", "GET /1 HTTP/1.1\r\nHost: a\r\n\r\n"),
		E("pp:get10", "GET /1 HTTP/1.0\r\n\r\n"),
		E("pp:get10-keepalive", "GET /1 HTTP/1.0\r\nConnection: keep-alive\r\n\r\n"),
		E("pp:get10-Keep-Alive", "GET /1 HTTP/1.0\r\nConnection: Keep-Alive\r\n\r\n"),
		E("pp:get11-close", "GET /1 HTTP/1.1\r\nConnection: close\r\n\r\n"),
		E("pp:get11-Close", "GET /1 HTTP/1.1\r\nConnection: Close\r\n\r\n"),
		E("pp:get11-keepalive", "GET /1 HTTP/1.1\r\nConnection: keep-alive\r\n\r\n"),
		E("pp:post10-cl", "POST /1 HTTP/1.0\r\nContent-Length: 3\r\n\r\nabc"),
		E("pp:post11-cl-close", "POST /1 HTTP/1.1\r\nConnection: close\r\nContent-Length: 3\r\n\r\nabc"),
		E("pp:post11-cl", "POST /1 HTTP/1.1\r\nContent-Length: 3\r\n\r\nabc"),
		E("pp:post11-cl0", "POST /1 HTTP/1.1\r\nContent-Length: 0\r\n\r\n"),
		E("pp:post11-chunked", "POST /1 HTTP/1.1\r\nTransfer-Encoding: chunked\r\n\r\n2\r\nab\r\n1\r\nc\r\n0\r\n\r\n"),
		E("pp:post11-chunked-trailer", "POST /1 HTTP/1.1\r\nTransfer-Encoding: chunked\r\n\r\n3\r\nabc\r\n0\r\nT: v\r\n\r\n"),
		E("pp:put11-expect", "PUT /1 HTTP/1.1\r\nExpect: 100-continue\r\nContent-Length: 3\r\n\r\nabc"),
	};
	static const struct ent seconds[] = {
		E("", "GET /2 HTTP/1.1\r\nHost: b\r\n\r\n"),
		E("", "POST /2 HTTP/1.1\r\nContent-Length: 2\r\n\r\nxy"),
		E("", "POST /2 HTTP/1.1\r\nTransfer-Encoding: chunked\r\n\r\n2\r\nxy\r\n0\r\n\r\n"),
		E("", "GET /2 HT"),
		E("", "XYZ\r\n\r\n"),
		E("", "\r\nGET /2 HTTP/1.1\r\n\r\n"),
		E("", "GET /2 HTTP/1.1\r\n\r\nGET /3 HTTP/1.1\r\n\r\n"),
	};
	if (groups & G_PIPE)
		for (size_t i = 0; i < sizeof firsts / sizeof firsts[0]; i++)
			for (size_t k = 0; k < sizeof seconds / sizeof seconds[0]; k++) {
				struct buf b; b.n = 0;
				bput(&b, firsts[i].text, firsts[i].len); bput(&b, seconds[k].text, seconds[k].len);
				add_stream(G_PIPE, firsts[i].tag, "", b.d, b.n);
			}

	/* ---- three pipelined messages ---- */
	static const struct ent thirds[] = {
		E("", "GET /3 HTTP/1.1\r\nHost: c\r\n\r\n"),
		E("", "POST /3 HTTP/1.1\r\nContent-Length: 2\r\n\r\nzz"),
		E("", "GET /3 HT"),
	};
	if (groups & G_PIPE3)
		for (size_t i = 0; i < sizeof firsts / sizeof firsts[0]; i++)
			for (size_t k = 0; k < 3; k++)
				for (size_t m = 0; m < sizeof thirds / sizeof thirds[0]; m++) {
					struct buf b; b.n = 0; char tag[56];
					bput(&b, firsts[i].text, firsts[i].len); bput(&b, seconds[k].text, seconds[k].len); bput(&b, thirds[m].text, thirds[m].len);
					snprintf(tag, sizeof tag, "p3%s", firsts[i].tag + 2);
					add_stream(G_PIPE3, tag, "", b.d, b.n);
				}

	/* ---- pairs of header sets on one POST (one cut + byte-at-a-time only) ---- */
	if (groups & G_HS2) {
		cur_capcuts = 1;
		for (size_t i = 0; i < sizeof hss / sizeof hss[0]; i++)
			for (size_t j = 0; j < sizeof hss / sizeof hss[0]; j++) {
				if (i == j) continue;
				struct buf b; b.n = 0; char tag[56];
				bputs(&b, "POST /p HTTP/1.1\r\n"); bput(&b, hss[i].text, hss[i].len); bput(&b, hss[j].text, hss[j].len);
				bputs(&b, "\r\nabc"); bputs(&b, PIPE2);
				const char *ti = hss[i].tag + 3, *tj = hss[j].tag + 3;
				snprintf(tag, sizeof tag, "h2:%.*s|%.*s", (int)strcspn(ti, "|"), ti, (int)strcspn(tj, "|"), tj);
				add_stream(G_HS2, tag, "", b.d, b.n);
			}
		cur_capcuts = 0;
	}

	/* ---- long streams: CR|LF pairs at every offset around the first evbuffer chain boundary (976) ---- */
	if (groups & G_LONG) {
		struct buf b; char tag[56];
		/* request line whose CR sits at offset 975 */
		b.n = 0; bputs(&b, "GET /"); for (int i = 0; i < 961; i++) bputs(&b, "a"); bputs(&b, " HTTP/1.1\r\nHost: a\r\n\r\n" PIPE2);
		add_stream(G_LONG, "long:request-line-cr-at-975", "", b.d, b.n);
		/* the empty line ending the header section has its CR at 975 */
		b.n = 0; bputs(&b, "GET / HTTP/1.1\r\nX-Pad: "); while (b.n < 973) bputs(&b, "a"); bputs(&b, "\r\n\r\n" PIPE2);
		add_stream(G_LONG, "long:blank-line-cr-at-975", "", b.d, b.n);
		/* 180 six-byte header lines, shifted by 0..5: some CR|LF straddles every offset */
		for (int pad = 0; pad < 6; pad++) {
			b.n = 0; bputs(&b, "GET / HTTP/1.1\r\nX-Pad: "); for (int i = 0; i < pad; i++) bputs(&b, "a"); bputs(&b, "\r\n");
			for (int i = 0; i < 180; i++) bputs(&b, "H: v\r\n");
			bputs(&b, "\r\n" PIPE2);
			snprintf(tag, sizeof tag, "long:header-lines|pad%d", pad);
			add_stream(G_LONG, tag, "", b.d, b.n);
		}
		/* 150 seven-byte chunks ("2 CRLF ab CRLF"), shifted by 0..6 */
		for (int pad = 0; pad < 7; pad++) {
			b.n = 0; bputs(&b, "POST /p HTTP/1.1\r\nX-Pad: "); for (int i = 0; i < pad; i++) bputs(&b, "a");
			bputs(&b, "\r\nTransfer-Encoding: chunked\r\n\r\n");
			for (int i = 0; i < 150; i++) bputs(&b, "2\r\nab\r\n");
			bputs(&b, "0\r\nT: v\r\n\r\n" PIPE2);
			snprintf(tag, sizeof tag, "long:chunks|pad%d", pad);
			add_stream(G_LONG, tag, "", b.d, b.n);
		}
		/* Content-Length body of 990 bytes followed by a pipelined request */
		b.n = 0; bputs(&b, "POST /p HTTP/1.1\r\nContent-Length: 990\r\n\r\n"); for (int i = 0; i < 990; i++) bputs(&b, "b"); bputs(&b, PIPE2);
		add_stream(G_LONG, "long:cl-body-then-request", "", b.d, b.n);
	}

	/* ---- bare LF as line terminator (§2.2 latitude) ---- */
	static const struct ent eols[] = {
		E("eol:lf-get", "GET / HTTP/1.1\nHost: a\n\n" PIPE2),
		E("eol:lf-post-cl", "POST /p HTTP/1.1\nContent-Length: 3\n\nabc" PIPE2),
		E("eol:lf-post-chunked", "POST /p HTTP/1.1\nTransfer-Encoding: chunked\n\n3\nabc\n0\n\n" PIPE2),
		E("eol:mixed", "POST /p HTTP/1.1\r\nX: y\nContent-Length: 3\r\n\nabc" PIPE2),
		E("eol:lf-final-only", "GET / HTTP/1.1\r\nHost: a\r\n\n" PIPE2),
		E("eol:crcrlf", "GET / HTTP/1.1\r\r\nHost: a\r\n\r\n" PIPE2),
		E("eol:cr-only", "GET / HTTP/1.1\rHost: a\r\r" PIPE2),
	};
	if (groups & G_EOL)
		for (size_t i = 0; i < sizeof eols / sizeof eols[0]; i++)
			add_stream(G_EOL, eols[i].tag, "", (const unsigned char *)eols[i].text, eols[i].len);
}

static uint64_t choose2(uint64_t m) { return m < 2 ? 0 : m * (m - 1) / 2; }
static uint64_t choose3(uint64_t m) { return m < 3 ? 0 : m * (m - 1) * (m - 2) / 6; }
static int eff_cuts(const struct stream *st) { return st->capcuts && st->capcuts < max_cuts ? st->capcuts : max_cuts; }

/* Segmentations of one stream, in index order:
 *   0                         one write
 *   small streams:  L-1 single cuts; all pairs (cuts>=2); all triples (cuts>=3 and L <= maxlen3)
 *   long streams:   cuts=1: the named single cuts; cuts>=2: all L-1 single cuts + all pairs of named cuts
 *   last                      byte-at-a-time */
static uint64_t stream_nsegs(const struct stream *st)
{
	size_t L = st->n; int mc = eff_cuts(st);
	uint64_t n = 2;
	if (st->nsel) {
		if (mc >= 2) n += (L - 1) + choose2((uint64_t)st->nsel); else n += (uint64_t)st->nsel;
		return n;
	}
	n += L - 1;
	if (mc >= 2) n += choose2(L - 1);
	if (mc >= 3 && (int)L <= maxlen3) n += choose3(L - 1);
	return n;
}

static void decode_seg(const struct stream *st, uint64_t seg, size_t cuts[3], int *nc, int *bytewise)
{
	size_t L = st->n; int mc = eff_cuts(st);
	*nc = 0; *bytewise = 0;
	if (seg == 0) return;
	if (seg == stream_nsegs(st) - 1) { *bytewise = 1; return; }
	seg -= 1;
	if (st->nsel) {
		if (mc < 2) { cuts[0] = st->sel[seg]; *nc = 1; return; }
		if (seg < L - 1) { cuts[0] = (size_t)seg + 1; *nc = 1; return; }
		seg -= L - 1;
		int a = 0;
		while (seg >= (uint64_t)(st->nsel - 1 - a)) { seg -= (uint64_t)(st->nsel - 1 - a); a++; }
		cuts[0] = st->sel[a]; cuts[1] = st->sel[a + 1 + (int)seg]; *nc = 2;
		return;
	}
	if (seg < L - 1) { cuts[0] = (size_t)seg + 1; *nc = 1; return; }
	seg -= L - 1;
	if (seg < choose2(L - 1)) {
		size_t k1 = 1;
		while (seg >= (uint64_t)(L - 1 - k1)) { seg -= (uint64_t)(L - 1 - k1); k1++; }
		cuts[0] = k1; cuts[1] = k1 + 1 + (size_t)seg; *nc = 2;
		return;
	}
	seg -= choose2(L - 1);
	{	/* triple k1 < k2 < k3 over 1..L-1 */
		size_t k1 = 1, k2;
		while (seg >= choose2(L - 1 - k1)) { seg -= choose2(L - 1 - k1); k1++; }
		k2 = k1 + 1;
		while (seg >= (uint64_t)(L - 1 - k2)) { seg -= (uint64_t)(L - 1 - k2); k2++; }
		cuts[0] = k1; cuts[1] = k2; cuts[2] = k2 + 1 + (size_t)seg; *nc = 3;
	}
}

/* ------------------------------------------------------------------ */
/* outcome                                                              */

struct outcome {
	char *text; size_t len;     /* canonical rendering compared between segmentations */
	struct srv s;               /* kept for oracle (b) on the unsegmented run */
};

static void oc_add(struct outcome *o, const char *fmt, ...)
{
	char tmp[8192]; va_list ap;
	va_start(ap, fmt); int n = vsnprintf(tmp, sizeof tmp, fmt, ap); va_end(ap);
	if (n < 0) return;
	if ((size_t)n >= sizeof tmp) n = sizeof tmp - 1;
	o->text = realloc(o->text, o->len + (size_t)n + 1);
	memcpy(o->text + o->len, tmp, (size_t)n + 1); o->len += (size_t)n;
}

static void render(struct outcome *o, struct srv *s, int closed_before_eof, int nfinal_before_eof)
{
	char e1[4096];
	o->text = NULL; o->len = 0;
	oc_add(o, "delivered=%d", s->nreq);
	for (int i = 0; i < s->nreq; i++) {
		struct srv_req *r = &s->req[i];
		oc_add(o, " | %s ", r->method);
		oc_add(o, "[%s] ", srv_show((unsigned char *)r->uri, strlen(r->uri), e1, sizeof e1));
		oc_add(o, "%d.%d {", r->major, r->minor);
		for (int k = 0; k < r->nh; k++) {
			oc_add(o, "%s=", srv_show((unsigned char *)r->hk[k], strlen(r->hk[k]), e1, sizeof e1));
			oc_add(o, "[%s];", srv_show((unsigned char *)r->hv[k], strlen(r->hv[k]), e1, sizeof e1));
		}
		oc_add(o, "} body=[%s]", srv_show(r->body, r->body_len, e1, sizeof e1));
	}
	oc_add(o, " || final=");
	for (int i = 0; i < s->nfinal; i++) oc_add(o, "%d,", s->final[i]);
	oc_add(o, " finals-before-eof=%d closed-before-eof=%d closed-after-eof=%d%s%s", nfinal_before_eof, closed_before_eof, s->eof,
	    s->resp_garbage ? " unparsable-response-bytes" : "", s->req_overflow ? " too-many-requests" : "");
}

static void cfg_server(struct srv *s, void *arg)
{
	(void)arg;
	evhttp_set_gencb(s->http, srv_handler, (void *)(intptr_t)1);
}

/* run one stream under one segmentation; seg as defined at the top */
static void run_stream(const struct stream *st, uint64_t seg, struct outcome *o, int keep)
{
	struct srv *s = &o->s;
	size_t L = st->n, cuts[3]; int nc = 0, bytewise = 0;
	decode_seg(st, seg, cuts, &nc, &bytewise);
	if (srv_open(s, cfg_server, NULL) < 0) { o->text = NULL; o->len = 0; return; }
	if (bytewise) srv_send_bytewise(s, st->b, L);
	else srv_send_segmented(s, st->b, L, cuts, nc);
	srv_pump(s);
	int closed_before = s->eof;
	srv_parse_responses(s);
	int nfinal_before = s->nfinal;
	srv_half_close(s);
	srv_parse_responses(s);
	render(o, s, closed_before, nfinal_before);
	if (mc_replaying()) {
		char e[8192];
		printf("SEG stream=%s seg=%llu cuts=%d", st->tag, (unsigned long long)seg, nc);
		for (int i = 0; i < nc; i++) printf(" @%zu", cuts[i]);
		printf("%s\nWROTE %s\n", bytewise ? " bytewise" : "", srv_show(st->b, L, e, sizeof e));
		printf("GOT   %s\n", s->out ? srv_show(s->out, s->out_len > 1500 ? 1500 : s->out_len, e, sizeof e) : "");
		printf("OUTCOME %s\n", o->text);
	}
	if (!keep) { srv_free_reqs(s); }
	/* teardown happens in the caller after oracle (b) had a chance to look at s */
}

static void finish_run(struct outcome *o, const struct stream *st)
{
	char what[96];
	snprintf(what, sizeof what, "stream class %s", st->tag);
	srv_free_reqs(&o->s);
	srv_close(&o->s, "C23", what);
}

/* ------------------------------------------------------------------ */
/* oracle (b)                                                           */

static int known_method(const char *m)
{
	static const char *k[] = { "GET", "POST", "HEAD", "PUT", "DELETE", "OPTIONS", "TRACE", "CONNECT", "PATCH", "PROPFIND",
		"PROPPATCH", "MKCOL", "LOCK", "UNLOCK", "COPY", "MOVE", "EXTB", "EXTN" };
	for (size_t i = 0; i < sizeof k / sizeof k[0]; i++) if (!strcmp(k[i], m)) return 1;
	return 0;
}

/* collapse runs of SP/HTAB to one SP and trim: used only for obs-fold messages
 * ("replace each obs-fold with one or more SP" leaves the amount open) */
static void collapse(const char *in, size_t n, char *out, size_t cap)
{
	size_t o = 0; int pend = 0;
	for (size_t i = 0; i < n && o + 2 < cap; i++) {
		if (in[i] == ' ' || in[i] == '\t') { pend = o > 0; continue; }
		if (pend) { out[o++] = ' '; pend = 0; }
		out[o++] = in[i];
	}
	out[o] = 0;
}

static void failk(const char *oracle, const char *detail, const struct stream *st, const char *fmt, ...)
{
	char key[200], msg[1000]; va_list ap;
	if (detail) snprintf(key, sizeof key, "C23/%s/%s/%s", oracle, detail, st->cls);
	else snprintf(key, sizeof key, "C23/%s/%s", oracle, st->cls);
	int o = snprintf(msg, sizeof msg, "[stream %s] ", st->tag);
	va_start(ap, fmt); vsnprintf(msg + o, sizeof msg - (size_t)o, fmt, ap); va_end(ap);
	mc_fail(key, "%s", msg);
}

static int compare_msg(const struct stream *st, int idx, const struct h1_msg *m, const struct srv_req *r)
{
	char a[2048], b[2048];
	if (strcmp(m->method, r->method)) { failk("request-differs", "method", st, "request %d: method delivered [%s], reference [%s]", idx, r->method, m->method); return 1; }
	if (strcmp(m->target, r->uri)) { failk("request-differs", "target", st, "request %d: target delivered [%s], reference [%s]", idx, srv_show((unsigned char *)r->uri, strlen(r->uri), a, sizeof a), m->target); return 1; }
	if (m->vmajor != r->major || m->vminor != r->minor) { failk("request-differs", "version", st, "request %d: version delivered %d.%d, reference %d.%d", idx, r->major, r->minor, m->vmajor, m->vminor); return 1; }
	/* header fields: the reference's header section, optionally followed by its trailer
	 * section (merging trailers into the header list is tolerated here, see notes) */
	int want = m->nfields;
	if (r->nh != m->nfields) {
		if (m->ntrailers && r->nh == m->nfields + m->ntrailers) want = r->nh;
		else { failk("request-differs", "field-count", st, "request %d: %d fields delivered, reference has %d (+%d trailer)", idx, r->nh, m->nfields, m->ntrailers); return 1; }
	}
	for (int i = 0; i < want; i++) {
		const struct h1_field *f = i < m->nfields ? &m->fields[i] : &m->trailers[i - m->nfields];
		if (strlen(r->hk[i]) != f->name_len || memcmp(r->hk[i], f->name, f->name_len)) {
			failk("request-differs", "field-name", st, "request %d field %d: name delivered [%s], reference [%s]", idx, i, srv_show((unsigned char *)r->hk[i], strlen(r->hk[i]), a, sizeof a), f->name); return 1;
		}
		int same;
		if (m->lat & H1_LAT_OBS_FOLD) {
			collapse(r->hv[i], strlen(r->hv[i]), a, sizeof a); collapse(f->value, f->value_len, b, sizeof b);
			same = !strcmp(a, b);
		} else same = strlen(r->hv[i]) == f->value_len && !memcmp(r->hv[i], f->value, f->value_len);
		if (!same) {
			failk("request-differs", "field-value", st, "request %d field %s: value delivered [%s], reference [%s]", idx, f->name,
			    srv_show((unsigned char *)r->hv[i], strlen(r->hv[i]), a, sizeof a), srv_show((unsigned char *)f->value, f->value_len, b, sizeof b));
			return 1;
		}
	}
	if (r->body_len != m->body_len || (m->body_len && memcmp(r->body, m->body, m->body_len))) {
		failk("request-differs", "body", st, "request %d: body delivered [%s] (%zu bytes), reference [%s] (%zu bytes)", idx,
		    srv_show(r->body, r->body_len, a, sizeof a), r->body_len, srv_show(m->body ? m->body : (unsigned char *)"", m->body_len, b, sizeof b), m->body_len);
		return 1;
	}
	return 0;
}

static void oracle_b(const struct stream *st, struct srv *s)
{
	struct h1_opts o = { .kind = H1_REQUEST, .max_msgs = SRV_MAXREQ };
	struct h1_result ref;
	int i, k = s->nreq;
	h1_parse_stream(st->b, st->n, &o, &ref);
	mc_observe("%s: ref msgs=%d tail=%s%s%s closed=%d | impl ", st->tag, ref.nmsgs, h1_status_name(ref.tail),
	    ref.reason ? ":" : "", ref.reason ? ref.reason : "", ref.closed);
	for (i = 0; i < ref.nmsgs; i++) {
		const struct h1_msg *m = &ref.msgs[i];
		unsigned lat = m->lat;
		int unknown = !known_method(m->method);
		if (i < k) {
			MC_COUNT("b_request_compared");
			if (lat) MC_COUNT("b_latitude_message_accepted");
			if (compare_msg(st, i, m, &s->req[i])) goto out;
		} else {
			int answered = s->nfinal > i;
			int rejected = (answered && s->final[i] >= 400) || (!answered && s->eof);
			if (lat || unknown) {
				if (rejected) MC_COUNT("b_latitude_message_rejected"); else MC_COUNT("b_latitude_message_pending");
			} else if (i > 0 && ref.msgs[i - 1].persist == H1_PERSIST_MAY && s->eof) {
				MC_COUNT("b_optional_persistence_declined");
			} else {
				failk("must-accept-not-delivered", NULL, st, "request %d (%s %s) is valid and complete per RFC 9112 but was not handed to the callback: %s (status %d)",
				    i, m->method, m->target, rejected ? "rejected" : "still pending", answered ? s->final[i] : 0);
			}
			goto out;
		}
		if (m->persist == H1_PERSIST_NO) {
			MC_COUNT("b_close_semantics_checked");
			if (k > i + 1) failk("delivered-after-close", NULL, st, "%d requests delivered although request %d ends the connection (close / HTTP/1.0)", k, i);
			goto out;
		}
		if (m->persist == H1_PERSIST_MAY && k == i + 1 && s->eof) { MC_COUNT("b_optional_persistence_declined"); goto out; }
	}
	switch (ref.tail) {
	case H1_OK: case H1_NEEDS_MORE:
		if (ref.tail == H1_OK) MC_COUNT("b_tail_end"); else MC_COUNT("b_tail_needs_more");
		if (k > ref.nmsgs) failk("extra-request-delivered", NULL, st, "%d requests delivered, the stream holds only %d complete messages (tail %s)", k, ref.nmsgs, h1_status_name(ref.tail));
		break;
	case H1_MUST_REJECT:
		MC_COUNT("b_tail_must_reject");
		if (k > ref.nmsgs) {
			struct srv_req *r = &s->req[ref.nmsgs]; char e[300];
			failk("must-reject-accepted", ref.reason, st, "message %d must be rejected (%s) but was handed to the callback as %s %s with body [%s]; %d delivered in total",
			    ref.nmsgs, ref.reason, r->method, r->uri, srv_show(r->body, r->body_len > 60 ? 60 : r->body_len, e, sizeof e), k);
		} else if ((s->nfinal > ref.nmsgs && s->final[ref.nmsgs] >= 400) || s->eof) MC_COUNT("b_must_reject_rejected");
		else MC_COUNT("b_must_reject_pending");
		break;
	case H1_MAY_EITHER:
		MC_COUNT("b_tail_may_either");
		break;
	}
out:
	h1_result_free(&ref);
}

/* ------------------------------------------------------------------ */

static int base_idx = -1; static char *base_text; static size_t base_len;

static void item(uint64_t it)
{
	int lo = 0, hi = ncat - 1;
	while (lo < hi) { int mid = (lo + hi + 1) / 2; if (cum[mid] <= it) lo = mid; else hi = mid - 1; }
	const struct stream *st = &cat[lo];
	uint64_t seg = it - cum[lo];
	struct outcome o; memset(&o, 0, sizeof o);

	if (seg == 0 || base_idx != lo) {
		/* unsegmented run: the reference outcome for oracle (a); oracle (b) on it when this item owns it */
		run_stream(st, 0, &o, 1);
		if (seg == 0) {
			oracle_b(st, &o.s);
			mc_observe("%s", o.text ? o.text : "(none)");
			mc_nontrivial(mc_hash(0, o.text ? o.text : "", o.len));
			MC_COUNT("streams");
		}
		finish_run(&o, st);
		free(base_text); base_text = o.text; base_len = o.len; base_idx = lo;
		if (seg == 0) return;
		memset(&o, 0, sizeof o);
	}
	run_stream(st, seg, &o, 0);
	MC_COUNT("a_segmentations_compared");
	if (seg == stream_nsegs(st) - 1) MC_COUNT("a_bytewise_compared");
	if (!o.text || !base_text || o.len != base_len || memcmp(o.text, base_text, o.len)) {
		char key[160];
		/* keyed by catalogue group (rl hs te ch bl pp eol): one broken reader shows up in many
		 * classes at once, and every distinct key costs two replays; the class is in the message */
		snprintf(key, sizeof key, "C23/segmentation-dependent/%.*s", (int)strcspn(st->cls, ":"), st->cls);
		mc_fail(key, "stream class %s, segmentation %llu of %llu: outcome\n  %s\ndiffers from the unsegmented outcome\n  %s", st->tag,
		    (unsigned long long)seg, (unsigned long long)stream_nsegs(st), o.text ? o.text : "(none)", base_text ? base_text : "(none)");
	}
	finish_run(&o, st);
	free(o.text);
}

static void init(void) { srv_global_init(); }

int main(int argc, char **argv)
{
	int groups = 0;
	const char *g = "all";
	for (int i = 1; i + 1 < argc; i++)
		if (!strcmp(argv[i], "-P")) {
			if (!strncmp(argv[i + 1], "cuts=", 5)) max_cuts = atoi(argv[i + 1] + 5);
			if (!strncmp(argv[i + 1], "maxlen3=", 8)) maxlen3 = atoi(argv[i + 1] + 8);
			if (!strncmp(argv[i + 1], "group=", 6)) g = argv[i + 1] + 6;
		}
	if (!strcmp(g, "all")) groups = G_RL | G_HS | G_CH | G_BL | G_PIPE | G_EOL;
	if (strstr(g, "rl")) groups |= G_RL;
	if (strstr(g, "hs") && !strstr(g, "hs2")) groups |= G_HS;
	if (strstr(g, "ch")) groups |= G_CH;
	if (strstr(g, "bl")) groups |= G_BL;
	if (strstr(g, "pipe") && !strstr(g, "pipe3")) groups |= G_PIPE;
	if (strstr(g, "pipe3")) groups |= G_PIPE3;
	if (strstr(g, "long")) groups |= G_LONG;
	if (strstr(g, "hs2")) groups |= G_HS2;
	if (strstr(g, "eol")) groups |= G_EOL;
	build_catalogue(groups);
	cum = malloc(sizeof(uint64_t) * (size_t)(ncat + 1));
	uint64_t t = 0;
	for (int i = 0; i < ncat; i++) { cum[i] = t; t += stream_nsegs(&cat[i]); }
	cum[ncat] = t;
	struct mc_config cfg = { .property = "C23", .init = init, .n_items = t, .item = item };
	return mc_main(argc, argv, &cfg);
}
