/* C26 — messages written by evhttp carry exactly the caller's content.
 *
 * Client side: evhttp_make_request() over an AF_UNIX socketpair; the bytes the
 * peer receives must parse (models/rfc9112_resp.c, written from the RFC) as
 * exactly one request with the caller's method / target / version / fields /
 * body plus the documented automatic Content-Length.
 * Server side: a request is fed to the real server (static evhttp_get_request);
 * the handler answers with evhttp_send_reply / evhttp_send_error /
 * evhttp_send_reply_start+chunk+end using arguments from catalogues that
 * include adversarial bytes; the bytes the peer receives must parse as exactly
 * one response with the caller's code / reason / fields / body plus the
 * documented automatic fields (Date, Content-Length, Transfer-Encoding,
 * Connection, Content-Type).
 *
 * Enumeration: full cross product of the benign values of every dimension,
 * plus every adversarial value of one dimension at a time against every
 * benign combination of the others.
 */
#include "mcx.h"
#include "http.c"
#include "httpcli_common.h"

#define L(lit) (lit), (sizeof(lit) - 1)

/* ---------------- catalogues ---------------- */
struct sarg { const char *label; const char *v; int adv; };

static const struct sarg targets[] = {
	{ "t-root", "/", 0 },
	{ "t-query", "/a/b?x=1&y=%20", 0 },
	{ "t-star", "*", 0 },
	{ "t-absolute", "http://h:8/p?q", 0 },
	{ "t-pct-crlf", "/a%0d%0aX-Inj:%201", 0 },
	{ "t-punct", "/~a;b=c,d!$'()*+@:", 0 },
	{ "target-with-space", "/a b", 1 },
	{ "target-unvalidated", "/a\r\nX-Inj: 1", 1 },
	{ "target-unvalidated", "/a HTTP/1.1\r\nX-Inj: 1\r\nX-Pad:", 1 },
	{ "target-unvalidated", "/a HTTP/1.1\r\n\r\nGET /evil HTTP/1.1\r\nX-Pad:", 1 },
	{ "target-unvalidated", "/a\nX-Inj: 1", 1 },
	{ "target-unvalidated", "/a\tb", 1 },
	{ "target-unvalidated", "/a\rb", 1 },
	{ "target-empty", "", 1 },
};
#define NTARGETS ((int)(sizeof targets / sizeof targets[0]))

struct hdr { const char *n, *v; };
struct hset { const char *label; int adv; int nh; struct hdr h[3]; };
static const struct hset hsets[] = {
	{ "h-none", 0, 0, {{0}} },
	{ "h-host", 0, 1, {{ "Host", "example.com:8080" }} },
	{ "h-dups", 0, 3, {{ "X-A", "1" }, { "X-B", "two  words" }, { "X-A", "3" }} },
	{ "h-empty-value", 0, 2, {{ "X-Empty", "" }, { "X-After", "z" }} },
	{ "h-obs-text", 0, 1, {{ "x-lower", "caf\xe9:\x80" }} },
	{ "h-content-type", 0, 1, {{ "Content-Type", "text/plain" }} },
	{ "h-connection-close", 0, 1, {{ "Connection", "close" }} },
	{ "h-user-cl", 0, 1, {{ "Content-Length", "@LEN@" }} },          /* consistent with the body */
	{ "h-date", 0, 1, {{ "Date", "Thu, 01 Jan 1970 00:00:00 GMT" }} },
	{ "h-outer-ws", 0, 2, {{ "X-Ws", " a \t" }, { "X-After", "z" }} },
	/* adversarial: each followed by a benign field so that damage to later fields is visible */
	{ "hdr-name-colon", 1, 2, {{ "X:Y", "v" }, { "X-After", "z" }} },
	{ "hdr-name-whitespace", 1, 2, {{ "X Y", "v" }, { "X-After", "z" }} },
	{ "hdr-name-whitespace", 1, 2, {{ "X\tY", "v" }, { "X-After", "z" }} },
	{ "hdr-name-whitespace", 1, 2, {{ "X-A ", "v" }, { "X-After", "z" }} },
	{ "hdr-name-crlf", 1, 2, {{ "X\r\nInj: 1", "v" }, { "X-After", "z" }} },
	{ "hdr-name-crlf", 1, 2, {{ "X\nInj", "v" }, { "X-After", "z" }} },
	{ "hdr-name-crlf", 1, 2, {{ "X\rInj", "v" }, { "X-After", "z" }} },
	{ "hdr-name-empty", 1, 2, {{ "", "v" }, { "X-After", "z" }} },
	{ "hdr-value-fold", 1, 2, {{ "X-F", "a\r\n b" }, { "X-After", "z" }} },
	{ "hdr-value-fold", 1, 2, {{ "X-F", "a\r\n\tb" }, { "X-After", "z" }} },
	{ "hdr-value-fold", 1, 2, {{ "X-F", "\r\n b" }, { "X-After", "z" }} },
	{ "hdr-value-lf-fold", 1, 2, {{ "X-F", "a\n b" }, { "X-After", "z" }} },
	{ "hdr-value-cr-sp", 1, 2, {{ "X-F", "a\r b" }, { "X-After", "z" }} },
	{ "hdr-value-crlf-inject", 1, 2, {{ "X-F", "a\r\nInj: 1" }, { "X-After", "z" }} },
	{ "hdr-value-crlf-inject", 1, 2, {{ "X-F", "a\nInj: 1" }, { "X-After", "z" }} },
	{ "hdr-value-crlf-inject", 1, 2, {{ "X-F", "a\rInj: 1" }, { "X-After", "z" }} },
	{ "hdr-value-crlf-inject", 1, 2, {{ "X-F", "a\r\n" }, { "X-After", "z" }} },
	{ "hdr-value-crlf-inject", 1, 2, {{ "X-F", "a\r\n \r\nInj: 1" }, { "X-After", "z" }} },
	{ "hdr-value-multi-linebreak-fold", 1, 2, {{ "X-F", "a\r\n\r\n b" }, { "X-After", "z" }} },
	{ "hdr-value-multi-linebreak-fold", 1, 2, {{ "X-F", "a\n\n b" }, { "X-After", "z" }} },
	{ "hdr-value-multi-linebreak-fold", 1, 2, {{ "X-F", "a\r\n\r\n\tHTTP/1.1 200 OK\r\n Content-Length: 0" }, { "X-After", "z" }} },
};
#define NHSETS ((int)(sizeof hsets / sizeof hsets[0]))

struct barg { const char *label; const char *p; size_t n; int adv; };
static struct barg bodies[5] = {
	{ "b-none", L(""), 0 },
	{ "b-hello", L("hello"), 0 },
	{ "b-looks-like-message", L("0\r\n\r\nGET /x HTTP/1.1\r\n\r\nHTTP/1.1 200 OK\r\n\r\n\0\xff"), 0 },
	/* thorough only (-P bigbodies=1): bodies spanning several evbuffer chains / several writes; filled in init() */
	{ "b-4k", NULL, 4096, 0 },
	{ "b-70k", NULL, 70000, 0 },
};
#define NBODIES (mc_param("bigbodies", 0) ? 5 : 3)     /* bigbodies=1: all five; see BODY() for the index map */
#define NBENIGN_HSETS 10          /* the first 10 field sets are the benign ones */

/* client */
struct marg { const char *label; int type; const char *name; int has_body_flag; };
#define EXT_TYPE (EVHTTP_REQ_MAX << 1)
static const struct marg methods[] = {
	{ "GET", EVHTTP_REQ_GET, "GET", 1 }, { "POST", EVHTTP_REQ_POST, "POST", 1 }, { "HEAD", EVHTTP_REQ_HEAD, "HEAD", 0 },
	{ "PUT", EVHTTP_REQ_PUT, "PUT", 1 }, { "DELETE", EVHTTP_REQ_DELETE, "DELETE", 1 }, { "OPTIONS", EVHTTP_REQ_OPTIONS, "OPTIONS", 1 },
	{ "TRACE", EVHTTP_REQ_TRACE, "TRACE", 0 }, { "CONNECT", EVHTTP_REQ_CONNECT, "CONNECT", 1 }, { "PATCH", EVHTTP_REQ_PATCH, "PATCH", 1 },
	{ "PROPFIND", EVHTTP_REQ_PROPFIND, "PROPFIND", 1 }, { "EXT", EXT_TYPE, "FOO-BAR", 1 },
};
#define NMETHODS ((int)(sizeof methods / sizeof methods[0]))
static int ext_cmp(struct evhttp_ext_method *m)
{
	if (m->method == NULL) { if (m->type != EXT_TYPE) return -1; m->method = "FOO-BAR"; m->flags = EVHTTP_METHOD_HAS_BODY; return 0; }
	if (!strcmp(m->method, "FOO-BAR")) { m->type = EXT_TYPE; m->flags = EVHTTP_METHOD_HAS_BODY; return 0; }
	return -1;
}

/* server */
static const struct sarg reasons[] = {
	{ "r-null", NULL, 0 },
	{ "r-ok", "OK", 0 },
	{ "r-words", "Very Fine  Indeed", 0 },
	{ "r-empty", "", 0 },
	{ "r-obs-text", "caf\xe9", 0 },
	{ "reason-unvalidated", "OK\r\nX-Inj: 1", 1 },
	{ "reason-unvalidated", "OK\r\nContent-Length: 0\r\n\r\nHTTP/1.1 200 OK\r\nX-Pad: 1", 1 },
	{ "reason-unvalidated", "a\nb", 1 },
	{ "reason-unvalidated", "a\rb", 1 },
};
#define NREASONS ((int)(sizeof reasons / sizeof reasons[0]))
static const int codes[] = { 200, 404, 500, 204, 304, 299, /* thorough (-P morecodes=1): */ 206, 301, 503 };
#define NCODES (mc_param("morecodes", 0) ? 9 : 6)
struct rk { const char *label; const char *bytes; int head, major, minor, keepalive, close; };
static const struct rk reqkinds[] = {
	{ "get11", "GET /x HTTP/1.1\r\nHost: h\r\n\r\n", 0, 1, 1, 0, 0 },
	{ "head11", "HEAD /x HTTP/1.1\r\nHost: h\r\n\r\n", 1, 1, 1, 0, 0 },
	{ "get10", "GET /x HTTP/1.0\r\n\r\n", 0, 1, 0, 0, 0 },
	{ "get10-keepalive", "GET /x HTTP/1.0\r\nConnection: keep-alive\r\n\r\n", 0, 1, 0, 1, 0 },
	{ "get11-close", "GET /x HTTP/1.1\r\nHost: h\r\nConnection: close\r\n\r\n", 0, 1, 1, 0, 1 },
	/* requests that arrive with a chunked body: the request object has been through the chunked reader */
	{ "post11-chunked", "POST /x HTTP/1.1\r\nHost: h\r\nTransfer-Encoding: chunked\r\n\r\n3\r\nabc\r\n0\r\n\r\n", 0, 1, 1, 0, 0 },
	{ "post10-chunked", "POST /x HTTP/1.0\r\nTransfer-Encoding: chunked\r\n\r\n3\r\nabc\r\n0\r\n\r\n", 0, 1, 0, 0, 0 },
	{ "post11-cl", "POST /x HTTP/1.1\r\nHost: h\r\nContent-Length: 3\r\n\r\nabc", 0, 1, 1, 0, 0 },
};
#define NREQKINDS (mc_param("morecodes", 0) ? 8 : 7)   /* post11-cl only in thorough */
enum { ST_REPLY, ST_ERROR, ST_CHUNK1, ST_CHUNK2, ST_CHUNK0, NSTYLES };
static const char *style_names[] = { "send_reply", "send_error", "start+chunk+end", "start+2chunks+end", "start+end" };

/* ---------------- shared helpers ---------------- */
static long live0; static uint64_t fd0;

/* what evhttp_add_header accepted, in order */
struct want { int n; struct { const char *n, *v; int adv; } f[8]; char lenbuf[24]; };
/* thorough (-P pairs=1): two adversarial arguments at a time, restricted to values that are handled correctly
 * on their own (refused or sanitised); the ones that are findings by themselves stay one-at-a-time */
static int bad_alone(const char *label)
{
	return !strcmp(label, "target-with-space") || !strcmp(label, "target-empty") || !strcmp(label, "hdr-name-whitespace");
}
static char pair_label[120];
/* second (benign) field set appended after the first one: 0 = none (thorough: -P cohdr=1) */
static const struct hset *choose_co(int hi)
{
	/* none, or one of the field sets that meet the automatic fields: Content-Type, Connection: close, Content-Length, Date */
	static const int cos[5] = { 0, 5, 6, 7, 8 };
	if (!mc_param("cohdr", 0)) return NULL;
	int c = cos[mc_choose(5, 0, "co-headers")];
	if (c == 0 || c == hi) return NULL;
	return &hsets[c];
}
/* everything the library writes: run the loop and read until nothing more arrives (a body larger than the
 * socket buffer needs several rounds); returns 1 when the writer closed */
static int capture_all(int fd, struct hc_buf *cap)
{
	int eof = 0;
	for (int round = 0; round < 200; round++) {
		size_t before = cap->n;
		hc_run();
		int e = hc_peer_drain(fd, cap);
		if (e) { eof = 1; break; }
		if (cap->n == before) break;
	}
	return eof;
}

static void add_headers1(struct evkeyvalq *q, const struct hset *hs, struct want *w);
static void add_headers(struct evkeyvalq *q, const struct hset *hs, const struct hset *co, size_t bodylen, struct want *w)
{
	w->n = 0;
	snprintf(w->lenbuf, sizeof w->lenbuf, "%zu", bodylen);
	add_headers1(q, hs, w);
	if (co) add_headers1(q, co, w);
}
static void add_headers1(struct evkeyvalq *q, const struct hset *hs, struct want *w)
{
	for (int i = 0; i < hs->nh; i++) {
		const char *v = !strcmp(hs->h[i].v, "@LEN@") ? w->lenbuf : hs->h[i].v;
		int r = evhttp_add_header(q, hs->h[i].n, v);
		if (r == 0) { w->f[w->n].n = hs->h[i].n; w->f[w->n].v = v; w->f[w->n].adv = hs->adv && i == 0; w->n++; MC_COUNT("headers_accepted_by_api"); }
		else MC_COUNT("headers_rejected_by_api");
	}
}

/* supplied value as a conformant recipient may read it: obs-fold (CRLF / LF followed by blanks,
 * with the blanks around it) becomes one SP, a remaining CR becomes SP, outer OWS removed */
static size_t normalise_value(const char *v, uint8_t *out)
{
	size_t n = strlen(v), o = 0;
	for (size_t i = 0; i < n; ) {
		if ((v[i] == '\r' && v[i + 1] == '\n' && (v[i + 2] == ' ' || v[i + 2] == '\t')) ||
		    (v[i] == '\n' && (v[i + 1] == ' ' || v[i + 1] == '\t'))) {
			while (o && (out[o - 1] == ' ' || out[o - 1] == '\t')) o--;
			i += v[i] == '\r' ? 2 : 1;
			while (v[i] == ' ' || v[i] == '\t') i++;
			out[o++] = ' ';
			continue;
		}
		out[o++] = (uint8_t)(v[i] == '\r' ? ' ' : v[i]);
		i++;
	}
	size_t s = 0;
	while (o && (out[o - 1] == ' ' || out[o - 1] == '\t')) o--;
	while (s < o && (out[s] == ' ' || out[s] == '\t')) s++;
	memmove(out, out + s, o - s);
	return o - s;
}
static int field_matches(const struct r9_field *f, const char *name, const char *val)
{
	uint8_t norm[512];
	if (strlen(val) >= sizeof norm) return 0;
	size_t n = normalise_value(val, norm);
	return f->nlen == strlen(name) && !memcmp(f->name, name, f->nlen) && f->vlen == n && !memcmp(f->val, norm, n);
}
static int is_auto_name(const struct r9_field *f)
{
	return r9_name_is(f, "Date") || r9_name_is(f, "Content-Length") || r9_name_is(f, "Transfer-Encoding") ||
	       r9_name_is(f, "Connection") || r9_name_is(f, "Content-Type");
}
static int want_has(const struct want *w, const char *name)
{
	for (int i = 0; i < w->n; i++) if (!evutil_ascii_strcasecmp(w->f[i].n, name)) return 1;
	return 0;
}

static void failk(const char *side, const char *oracle, const char *label, const char *capture, size_t caplen, const char *fmt, ...)
{
	char key[200], msg[700], esc[420]; va_list ap;
	snprintf(key, sizeof key, "C26/%s/%s/%s", side, oracle, label);
	va_start(ap, fmt); vsnprintf(msg, sizeof msg, fmt, ap); va_end(ap);
	hc_esc(esc, sizeof esc, capture, caplen);
	mc_fail(key, "%s; bytes on the wire: \"%s\"", msg, esc);
}

/* lat bits that the caller's own (accepted) arguments can legitimately cause */
static unsigned allowed_lat(const struct hset *hs)
{
	unsigned a = 0;
	if (!strcmp(hs->label, "hdr-value-fold")) a |= R9_LAT_OBS_FOLD;
	if (!strcmp(hs->label, "hdr-value-lf-fold")) a |= R9_LAT_OBS_FOLD | R9_LAT_BARE_LF;
	if (!strcmp(hs->label, "hdr-name-colon")) a |= 0;
	return a;
}

/* compare the user part of the parsed field list with what the API accepted.
 * returns the number of parsed fields that belong to the user part, or -1 after reporting */
static int check_user_fields(const char *side, const char *label, const struct r9_msg *m, const struct want *w,
    const struct hc_buf *cap)
{
	if (m->nf < w->n) {
		failk(side, "missing-fields", label, (char *)cap->p, cap->n, "%d fields accepted by evhttp_add_header, %d fields on the wire", w->n, m->nf);
		return -1;
	}
	for (int i = 0; i < w->n; i++) {
		MC_COUNT("oracle_field_compare");
		if (w->f[i].adv && !r9_is_token((const uint8_t *)w->f[i].n, strlen(w->f[i].n))) {
			/* a name that is not a token cannot be represented; only require that it stays one field line
			 * (the position and the following fields are compared) */
			continue;
		}
		if (!field_matches(&m->f[i], w->f[i].n, w->f[i].v)) {
			char a[200], b[200];
			hc_esc(a, sizeof a, w->f[i].v, strlen(w->f[i].v)); hc_esc(b, sizeof b, m->f[i].val, m->f[i].vlen);
			failk(side, "wrong-field", label, (char *)cap->p, cap->n, "field %d: caller gave \"%s: %s\", the wire has \"%.*s: %s\"", i, w->f[i].n, a, (int)m->f[i].nlen, (const char *)m->f[i].name, b);
			return -1;
		}
	}
	return w->n;
}

/* ---------------- client side ---------------- */
static void client_done(struct evhttp_request *req, void *arg) { (void)req; ++*(int *)arg; }
static void run_client(void)
{
	int mi = mc_choose(NMETHODS, 0, "method");
	int ver = mc_choose(2, 0, "version");
	int ti = mc_choose(NTARGETS, 0, "target");
	int hi = mc_choose(NHSETS, 0, "headers");
	int bi = mc_choose(NBODIES, 0, "body");
	const struct hset *co = choose_co(hi);
	const struct marg *me = &methods[mi]; const struct sarg *tg = &targets[ti]; const struct hset *hs = &hsets[hi]; const struct barg *bo = &bodies[bi];
	if (tg->adv + hs->adv > 1 && !(mc_param("pairs", 0) && !bad_alone(tg->label) && !bad_alone(hs->label))) { mc_observe("client: skipped (two adversarial dimensions)"); return; }
	const char *label = tg->adv ? tg->label : hs->adv ? hs->label : "benign";
	if (tg->adv && hs->adv) { snprintf(pair_label, sizeof pair_label, "%s+%s", tg->label, hs->label); label = pair_label; }
	if ((tg->adv || hs->adv) && !me->has_body_flag && bo->n) { mc_observe("client: skipped (adversarial argument only against benign shapes)"); return; }
	int sv[2]; struct hc_buf cap = {0}; struct want w; struct r9_msg m;
	int cb_called = 0;
	hc_exec_begin();
	if (hc_socketpair(sv) < 0) { hc_exec_end(); return; }
	struct bufferevent *bev = bufferevent_socket_new(hc_base, sv[0], BEV_OPT_CLOSE_ON_FREE);
	struct evhttp_connection *evcon = evhttp_connection_base_bufferevent_reuse_new(hc_base, NULL, bev);
	hc_set_peer_addr(evcon, hc_refused_port);
	evhttp_connection_set_ext_method_cmp(evcon, ext_cmp);
	struct evhttp_request *req = evhttp_request_new(client_done, &cb_called);
	if (ver) { req->major = 1; req->minor = 0; }
	add_headers(req->output_headers, hs, co, bo->n, &w);
	if (bo->n) evbuffer_add(req->output_buffer, bo->p, bo->n);
	int rc = evhttp_make_request(evcon, req, (enum evhttp_cmd_type)me->type, tg->v);
	capture_all(sv[1], &cap);
	hc_buf_add(&cap, "", 0);
	MC_COUNT("client_requests");
	if (rc != 0) {
		/* the API refused the arguments: nothing may have been written */
		MC_COUNT("client_requests_refused_by_api");
		if (cap.n) failk("request", "refused-but-written", label, (char *)cap.p, cap.n, "evhttp_make_request returned %d", rc);
		mc_observe("client %s %s %s %s v%d: refused by API", me->label, tg->label, hs->label, bo->label, ver);
		goto out;
	}
	enum r9_result res = r9_parse_request(cap.p, cap.n, 0, &m);
	int expect_cl = me->has_body_flag && (bo->n > 0 || me->type == EVHTTP_REQ_POST || me->type == EVHTTP_REQ_PUT);
	const char *blabel = (!me->has_body_flag && bo->n) ? "body-on-method-without-body" : label;
	MC_COUNT("oracle_one_message");
	if (res != R9_OK) {
		failk("request", "not-one-message", blabel, (char *)cap.p, cap.n, "%s %s: reference parser: %s (%s)", me->label, hs->label, res == R9_MORE ? "incomplete" : "invalid", m.why ? m.why : "?");
	} else if (m.consumed != cap.n) {
		failk("request", "not-one-message", blabel, (char *)cap.p, cap.n, "%s %s: one request of %zu bytes followed by %zu more bytes", me->label, hs->label, m.consumed, cap.n - m.consumed);
	} else if ((m.lat & ~allowed_lat(hs)) || (m.alt_reject && strcmp(hs->label, "hdr-value-cr-sp"))) {
		failk("request", "not-clean", blabel, (char *)cap.p, cap.n, "%s %s: parses only with latitude %#x alt_reject=%d", me->label, hs->label, m.lat, m.alt_reject);
	} else {
		MC_COUNT("oracle_request_line");
		if (m.mlen != strlen(me->name) || memcmp(m.method, me->name, m.mlen))
			failk("request", "wrong-method", label, (char *)cap.p, cap.n, "caller asked for %s", me->name);
		if (m.tlen != strlen(tg->v) || memcmp(m.target, tg->v, m.tlen)) {
			char e[200]; hc_esc(e, sizeof e, tg->v, strlen(tg->v));
			failk("request", "wrong-target", label, (char *)cap.p, cap.n, "caller gave target \"%s\"", e);
		}
		if (m.major != 1 || m.minor != (ver ? 0 : 1))
			failk("request", "wrong-version", label, (char *)cap.p, cap.n, "caller asked for 1.%d, wire has %d.%d", ver ? 0 : 1, m.major, m.minor);
		int k = check_user_fields("request", label, &m, &w, &cap);
		if (k >= 0) {
			/* automatic fields: only Content-Length, only when documented */
			int auto_cl = expect_cl && !want_has(&w, "Content-Length");
			MC_COUNT("oracle_automatic_fields");
			if (m.nf - k != auto_cl)
				failk("request", "extra-fields", label, (char *)cap.p, cap.n, "%d fields after the caller's %d; expected %d automatic", m.nf - k, k, auto_cl);
			else if (auto_cl) {
				char lb[24]; snprintf(lb, sizeof lb, "%zu", bo->n);
				if (!field_matches(&m.f[k], "Content-Length", lb))
					failk("request", "wrong-auto-content-length", label, (char *)cap.p, cap.n, "expected Content-Length: %s", lb);
			}
		}
		MC_COUNT("oracle_body");
		if (m.blen != bo->n || memcmp(m.body, bo->p, bo->n))
			failk("request", "wrong-body", blabel, (char *)cap.p, cap.n, "caller gave %zu body bytes, message has %zu", bo->n, m.blen);
	}
	mc_observe("client %s %s %s %s v%d -> %s nf=%d body=%zu lat=%#x", me->label, tg->label, hs->label, bo->label, ver,
	    res == R9_OK ? "OK" : res == R9_MORE ? "MORE" : "REJECT", m.nf, m.blen, m.lat);
	r9_msg_free(&m);
out:
	evhttp_connection_free(evcon);
	close(sv[1]);
	hc_exec_end();
	hc_buf_free(&cap);
}

/* ---------------- server side ---------------- */
static struct { int style, code; const char *reason; const struct hset *hs, *co; const struct barg *body; struct want w; int calls; } plan;

static void handler(struct evhttp_request *req, void *arg)
{
	(void)arg;
	plan.calls++;
	const struct barg *b = plan.body;
	struct evbuffer *buf = evbuffer_new();
	size_t total = plan.style == ST_CHUNK2 ? 2 * b->n : plan.style == ST_CHUNK0 ? 0 : b->n;
	if (plan.style != ST_ERROR) add_headers(req->output_headers, plan.hs, plan.co, total, &plan.w);
	else plan.w.n = 0;
	switch (plan.style) {
	case ST_REPLY:
		if (b->n) evbuffer_add(buf, b->p, b->n);
		evhttp_send_reply(req, plan.code, plan.reason, b->n ? buf : NULL);
		break;
	case ST_ERROR:
		evhttp_send_error(req, plan.code, plan.reason);
		break;
	case ST_CHUNK1: case ST_CHUNK2: case ST_CHUNK0:
		evhttp_send_reply_start(req, plan.code, plan.reason);
		for (int i = 0; i < (plan.style == ST_CHUNK2 ? 2 : plan.style == ST_CHUNK1 ? 1 : 0); i++) {
			if (b->n) evbuffer_add(buf, b->p, b->n);
			evhttp_send_reply_chunk(req, buf);
		}
		evhttp_send_reply_end(req);
		break;
	}
	evbuffer_free(buf);
}

static void run_server(void)
{
	int ki = mc_choose(NREQKINDS, 0, "request-kind");
	int st = mc_choose(NSTYLES, 0, "style");
	int ci = mc_choose(NCODES, 0, "code");
	int ri = mc_choose(NREASONS, 0, "reason");
	int hi = mc_choose(NHSETS, 0, "headers");
	int bi = mc_choose(NBODIES, 0, "body");
	const struct rk *rk = &reqkinds[ki]; const struct sarg *rs = &reasons[ri]; const struct hset *hs = &hsets[hi]; const struct barg *bo = &bodies[bi];
	int code = codes[ci];
	if (rs->adv + hs->adv > 1 && !(mc_param("pairs", 0) && !bad_alone(rs->label) && !bad_alone(hs->label))) { mc_observe("server: skipped (two adversarial dimensions)"); return; }
	if (st == ST_ERROR && (hi != 0 || bi != 0 || code < 400)) { mc_observe("server: skipped (send_error takes no fields/body)"); return; }
	if (st == ST_CHUNK0 && bi != 0) { mc_observe("server: skipped (no chunk, body irrelevant)"); return; }
	{
		size_t sent0 = st == ST_CHUNK2 ? 2 * bo->n : (st == ST_CHUNK0) ? 0 : bo->n;
		int bodiless0 = rk->head || code == 204 || code == 304;
		int shape = (bodiless0 && (sent0 || st == ST_ERROR)) || (st >= ST_CHUNK1 && rk->minor == 0 && rk->keepalive) ||
		    (st >= ST_CHUNK1 && !strcmp(hs->label, "h-user-cl"));
		if ((rs->adv || hs->adv) && shape) { mc_observe("server: skipped (adversarial argument only against benign shapes)"); return; }
	}
	const struct hset *co = (st == ST_ERROR) ? NULL : choose_co(hi);
	if (co && st >= ST_CHUNK1 && !strcmp(co->label, "h-user-cl") && (rs->adv || hs->adv)) { mc_observe("server: skipped (adversarial argument only against benign shapes)"); return; }
	int sv[2]; struct hc_buf cap = {0}; struct r9_msg m;
	struct sockaddr_un sa; memset(&sa, 0, sizeof sa); sa.sun_family = AF_UNIX;
	hc_exec_begin();
	if (hc_socketpair(sv) < 0) { hc_exec_end(); return; }
	struct evhttp *http = evhttp_new(hc_base);
	evhttp_set_gencb(http, handler, NULL);
	memset(&plan, 0, sizeof plan);
	plan.style = st; plan.code = code; plan.reason = rs->v; plan.hs = hs; plan.co = co; plan.body = bo;
	evhttp_get_request(http, sv[0], (struct sockaddr *)&sa, sizeof(sa_family_t), NULL);
	hc_peer_write(sv[1], rk->bytes, strlen(rk->bytes));
	int eof = capture_all(sv[1], &cap);
	hc_buf_add(&cap, "", 0);
	MC_COUNT("server_replies");
	if (plan.calls != 1) mc_fail("harness:handler-calls", "handler ran %d times", plan.calls);
	if (rk->close) {
		/* documented: the close request is echoed; evhttp replaces a caller's Connection field by it */
		int j = 0;
		for (int i = 0; i < plan.w.n; i++) if (evutil_ascii_strcasecmp(plan.w.f[i].n, "Connection")) plan.w.f[j++] = plan.w.f[i];
		plan.w.n = j;
	}
	size_t sent = st == ST_CHUNK2 ? 2 * bo->n : (st == ST_CHUNK0 || st == ST_ERROR) ? 0 : bo->n;
	int bodiless = rk->head || code == 204 || code == 304;
	/* label: the adversarial argument if any, else the reply shape that matters for framing */
	const char *label = rs->adv ? rs->label : hs->adv ? hs->label : "benign";
	if (rs->adv && hs->adv) { snprintf(pair_label, sizeof pair_label, "%s+%s", rs->label, hs->label); label = pair_label; }
	const char *flabel = label;
	if (!rs->adv && !hs->adv) {
		if (bodiless && (sent || st == ST_ERROR)) flabel = rk->head ? "body-on-head-reply" : "body-on-204-304-reply";
		else if (st >= ST_CHUNK1 && rk->minor == 0 && rk->keepalive) flabel = "reply-start-http10-keepalive";
		else if (st >= ST_CHUNK1 && want_has(&plan.w, "Content-Length")) flabel = "reply-start-with-user-content-length";
	}
	enum r9_result res = r9_parse_response(cap.p, cap.n, eof, rk->head ? R9_REQ_HEAD : R9_REQ_OTHER, &m);
	MC_COUNT("oracle_one_message");
	if (res != R9_OK) {
		failk("response", "not-one-message", flabel, (char *)cap.p, cap.n, "%s %s %d after %s: reference parser: %s (%s), connection %s", style_names[st], hs->label, code, rk->label,
		    res == R9_MORE ? "incomplete" : "invalid", m.why ? m.why : "?", eof ? "closed" : "open");
	} else if (m.consumed != cap.n) {
		failk("response", "not-one-message", flabel, (char *)cap.p, cap.n, "%s %s %d after %s: one response of %zu bytes followed by %zu more bytes", style_names[st], hs->label, code, rk->label, m.consumed, cap.n - m.consumed);
	} else if (m.n_interim) {
		failk("response", "not-one-message", flabel, (char *)cap.p, cap.n, "%d interim responses", m.n_interim);
	} else if ((m.lat & ~(allowed_lat(hs) | R9_LAT_STATUS_RANGE)) || (m.alt_reject && strcmp(hs->label, "hdr-value-cr-sp"))) {
		failk("response", "not-clean", flabel, (char *)cap.p, cap.n, "%s %s %d after %s: parses only with latitude %#x alt_reject=%d", style_names[st], hs->label, code, rk->label, m.lat, m.alt_reject);
	} else {
		MC_COUNT("oracle_status_line");
		/* the version of a response is the server's own (RFC 9112 2.3); only the status code is the caller's */
		if (m.status != code || m.major != 1)
			failk("response", "wrong-status-line", label, (char *)cap.p, cap.n, "caller gave %d for an HTTP/1.%d request; wire has %d HTTP/%d.%d", code, rk->minor, m.status, m.major, m.minor);
		/* a reason phrase with CR / LF cannot be represented: there only "one message, no extra field" is required */
		if (rs->v && !rs->adv && (m.rlen != strlen(rs->v) || memcmp(m.reason, rs->v, m.rlen))) {
			char e[200]; hc_esc(e, sizeof e, rs->v, strlen(rs->v));
			failk("response", "wrong-reason", label, (char *)cap.p, cap.n, "caller gave reason \"%s\"", e);
		}
		int k = check_user_fields("response", label, &m, &plan.w, &cap);
		if (k >= 0) {
			/* the rest must be documented automatic fields, each at most once and not duplicating a caller's field */
			int seen[5] = {0}; static const char *an[5] = { "Date", "Content-Length", "Transfer-Encoding", "Connection", "Content-Type" };
			MC_COUNT("oracle_automatic_fields");
			for (int i = k; i < m.nf; i++) {
				int a = -1;
				for (int j = 0; j < 5; j++) if (r9_name_is(&m.f[i], an[j])) a = j;
				if (a < 0 || !is_auto_name(&m.f[i])) { failk("response", "extra-fields", label, (char *)cap.p, cap.n, "undocumented automatic field \"%.*s\"", (int)m.f[i].nlen, (const char *)m.f[i].name); continue; }
				if (seen[a]++) failk("response", "extra-fields", label, (char *)cap.p, cap.n, "automatic field %s twice", an[a]);
				/* Connection may legitimately replace the caller's (close echo); the others must not duplicate */
				if (a != 3 && want_has(&plan.w, an[a]) && st != ST_ERROR) failk("response", "extra-fields", flabel, (char *)cap.p, cap.n, "automatic %s although the caller supplied one", an[a]);
				if (a == 1 && code == 204)
					failk("response", "auto-content-length-on-204", flabel, (char *)cap.p, cap.n, "automatic Content-Length on a 204 response (documented only where a body is allowed)");
				if (a == 1) {
					char lb[24]; snprintf(lb, sizeof lb, "%zu", m.blen);
					if (!bodiless && m.framing == R9_F_CL && strcmp((char *)m.f[i].val, lb)) failk("response", "wrong-auto-content-length", flabel, (char *)cap.p, cap.n, "Content-Length %s for %zu body bytes", m.f[i].val, m.blen);
				}
				if (a == 2 && (m.f[i].vlen != 7 || memcmp(m.f[i].val, "chunked", 7) || st < ST_CHUNK1 || rk->minor == 0))
					failk("response", "wrong-auto-transfer-encoding", flabel, (char *)cap.p, cap.n, "Transfer-Encoding: %s", m.f[i].val);
				if (a == 0 && (m.f[i].vlen != 29 || memcmp(m.f[i].val + 25, " GMT", 4)))
					failk("response", "wrong-auto-date", label, (char *)cap.p, cap.n, "Date: %s", m.f[i].val);
				if (a == 3 && strcmp((char *)m.f[i].val, "close") && strcmp((char *)m.f[i].val, "keep-alive"))
					failk("response", "wrong-auto-connection", label, (char *)cap.p, cap.n, "Connection: %s", m.f[i].val);
			}
		}
		MC_COUNT("oracle_body");
		if (st == ST_ERROR) {
			/* an HTML page; its exact text is the library's, only framing was checked above */
		} else if (bodiless) {
			if (m.blen) failk("response", "wrong-body", flabel, (char *)cap.p, cap.n, "body on a response that has none");
		} else {
			int ok = m.blen == sent;
			if (ok && sent) ok = !memcmp(m.body, bo->p, bo->n) && (st != ST_CHUNK2 || !memcmp(m.body + bo->n, bo->p, bo->n));
			if (!ok) failk("response", "wrong-body", flabel, (char *)cap.p, cap.n, "%s: caller gave %zu body bytes, message has %zu", style_names[st], sent, m.blen);
		}
		/* a close-delimited reply is only one message if the connection really was closed */
		if (m.framing == R9_F_CLOSE && !eof) failk("response", "not-one-message", flabel, (char *)cap.p, cap.n, "close-delimited body but the connection stays open");
	}
	mc_observe("server %s %s %d %s %s %s -> %s st=%d nf=%d body=%zu fr=%d eof=%d lat=%#x", rk->label, style_names[st], code, rs->label, hs->label, bo->label,
	    res == R9_OK ? "OK" : res == R9_MORE ? "MORE" : "REJECT", m.status, m.nf, m.blen, (int)m.framing, eof, m.lat);
	r9_msg_free(&m);
	close(sv[1]);
	hc_run();
	evhttp_free(http);
	hc_exec_end();
	hc_buf_free(&cap);
}

static void init(void)
{
	hc_global_init();
	for (int i = 3; i < 5; i++) {
		char *p = malloc(bodies[i].n);
		for (size_t k = 0; k < bodies[i].n; k++) p[k] = (k % 61 == 59) ? '\r' : (k % 61 == 60) ? '\n' : (char)('a' + k % 23);
		bodies[i].p = p;
	}
	live0 = mcx_alloc_live(); fd0 = mcx_fd_signature();
}

static void body(void)
{
	int side = mc_choose(2, 0, "side");
	if (side == 0) run_client(); else run_server();
	if (mcx_alloc_live() != live0) { mc_fail("C26/hygiene/leak", "%ld library allocations left (side %d)", mcx_alloc_live() - live0, side); live0 = mcx_alloc_live(); }
	if (mcx_fd_signature() != fd0) { mc_fail("C26/hygiene/fdleak", "fd table differs (side %d)", side); fd0 = mcx_fd_signature(); }
}

int main(int c, char **v)
{
	struct mc_config cfg = { .property = "C26", .body = body, .init = init, .default_split = 4 };
	return mc_main(c, v, &cfg);
}
