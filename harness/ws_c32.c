/* C32 — WebSocket handshake and outgoing frames are RFC 6455 conformant.
 *
 * Real code: evhttp upgrade (http.c, entered through the static evhttp_get_request
 * on a socketpair) + ws.c (evws_new_session, ws_gen_accept_key, Base64encode,
 * make_ws_frame, evws_send_text/binary, evws_close) + sha1.c.
 * Oracles: Sec-WebSocket-Accept recomputed with OpenSSL SHA-1 + base64 (models/rfc6455.c,
 * independent of sha1.c); every byte the server writes after the response head is decoded
 * by the reference decoder in client role (masked frames are an error).
 *
 * Shard mode: item i of a table built from -P deep=0|1 (quick | thorough):
 *   KEY  items: one upgrade with a key of a given length / byte class / header-size limit
 *   SEND items: one upgrade, then 1-2 evws_send_text/evws_send_binary calls (payload length
 *               and content class each) and optionally evws_close(code), issued either inside
 *               the request handler, outside any callback, or inside a message callback
 */
#include "mcx.h"
#include "http.c"
#include "rfc6455.h"
#include "ws_session.h"

enum { IT_KEY = 1, IT_SEND = 2 };
enum { OP_TEXT = 1, OP_BIN = 2, OP_CLOSE = 3 };
enum { WH_HANDLER = 0, WH_OUTSIDE = 1, WH_MSGCB = 2 };

struct op { int op; long arg; int content; };
struct c32_item {
	int type;
	long keylen; int kclass; long limit; unsigned seed;          /* KEY */
	int nops; struct op ops[4]; int where;                        /* SEND */
};
static struct c32_item *items; static size_t nitems, capitems;

static void add_item(const struct c32_item *it)
{
	if (nitems == capitems) {
		capitems = capitems ? capitems * 2 : 4096;
		items = realloc(items, capitems * sizeof *items);
		if (!items) abort();
	}
	items[nitems++] = *it;
}

#define NKCLASS 7
static const char *kclass_name[NKCLASS] = { "base64", "all-A", "high-bytes", "all-0xff", "printf-format", "inner-blanks-colon", "control-chars" };

static void fill_key(char *k, long n, int kclass, unsigned seed)
{
	static const char b64[] = "ABCDEFGHIJKLMNOPQRSTUVWXYZabcdefghijklmnopqrstuvwxyz0123456789+/";
	static const char fmt[] = "%s%n%d%%%x%p";
	static const char blanks[] = "a b\tc:d  e:\t";
	long i;
	for (i = 0; i < n; i++) {
		unsigned x = (unsigned)i * 2654435761u + seed * 40503u + (unsigned)n;
		switch (kclass) {
		case 0: k[i] = b64[(x >> 7) & 63]; break;
		case 1: k[i] = 'A'; break;
		case 2: k[i] = (char)(0x80 | ((x >> 9) & 0x7f)); break;
		case 3: k[i] = (char)0xff; break;
		case 4: k[i] = fmt[i % (sizeof fmt - 1)]; break;
		case 5: k[i] = blanks[i % (sizeof blanks - 1)]; break;
		default: { int c = 1 + (int)((x >> 5) % 31); if (c == '\n' || c == '\r') c = 0x7f; k[i] = (char)c; } break;
		}
	}
	if (kclass == 0 && n >= 2 && (seed & 1)) k[n - 1] = '=';     /* realistic padding */
}

static void build_items(int deep)
{
	struct c32_item it; long l; int c; unsigned s;
	static const long big_q[] = { 1000, 1023, 1024, 2000, 4096 };
	static const long big_t[] = { 1023, 1024, 1025, 2000, 4096, 8192, 16384, 65536, 1 << 20 };
	static const long lens_q[] = { 0, 1, 125, 126, 127, 65535, 65536, 65537, 1 << 20 };
	static const long lens_t[] = { 0, 1, 124, 125, 126, 127, 128, 65534, 65535, 65536, 65537, 1 << 20 };
	const long *lens = deep ? lens_t : lens_q; size_t nlens = deep ? sizeof lens_t / sizeof lens_t[0] : sizeof lens_q / sizeof lens_q[0];
	static const unsigned codes[] = { 1000, 0, 1, 255, 256, 1002, 1009, 3000, 4999, 0x7fff, 0x8000, 0xffff };
	struct op data[64]; int ndata = 0, a, b, w, cl;
	size_t i;
	/* ---- KEY items ---- */
	memset(&it, 0, sizeof it); it.type = IT_KEY;
	for (l = 0; l <= (deep ? 4200 : 130); l++)
		for (c = 0; c < NKCLASS; c++) { it.keylen = l; it.kclass = c; it.limit = 0; it.seed = (unsigned)l; add_item(&it); }
	/* SHA-1 block boundaries: key+GUID (36 bytes) ends within -12..+4 bytes of a multiple of 64, i.e.
	 * key length 16..32 mod 64 (padding fits / spills into an extra block, input is a whole number of
	 * blocks), for every block count up to 1100 bytes (quick) / 16500 bytes (deep) */
	for (l = deep ? 4201 : 131; l <= (deep ? 16500 : 1100); l++) {
		if (l % 64 < 16 || l % 64 > 32) continue;
		for (c = 0; c < (deep ? 3 : 2); c++) { it.keylen = l; it.kclass = c == 1 ? 2 : c == 2 ? 4 : 0; it.limit = 0; it.seed = (unsigned)l; add_item(&it); }
	}
	if (!deep) for (l = 980; l <= 995; l++)
		for (c = 0; c < NKCLASS; c++) { it.keylen = l; it.kclass = c; it.seed = 7; add_item(&it); }
	for (i = 0; i < (deep ? sizeof big_t / sizeof big_t[0] : sizeof big_q / sizeof big_q[0]); i++)
		for (c = 0; c < NKCLASS; c++) { it.keylen = deep ? big_t[i] : big_q[i]; it.kclass = c; it.seed = 3; add_item(&it); }
	/* realistic 24-character keys: many different SHA-1 inputs / digests for the base64 encoder */
	for (s = 0; s < (deep ? 20000u : 400u); s++) { it.keylen = 24; it.kclass = 0; it.seed = 1000 + s; it.limit = 0; add_item(&it); }
	/* around a configured header-size limit: the largest accepted keys and the first refused ones */
	{
		static const long limits_q[] = { 1200 }, limits_t[] = { 300, 1200, 8192, 16384 };
		size_t nl = deep ? 4 : 1;
		for (i = 0; i < nl; i++) {
			long lim = deep ? limits_t[i] : limits_q[i];
			for (l = lim - 160; l <= lim + 8; l++) {
				if (l < 0) continue;
				for (c = 0; c < (deep ? 3 : 2); c++) { it.keylen = l; it.kclass = c == 1 ? 2 : c == 2 ? 4 : 0; it.limit = lim; it.seed = 11; add_item(&it); }
			}
		}
	}
	/* ---- SEND items ---- */
	for (i = 0; i < nlens; i++) {
		int nc_text = deep ? 2 : 1, nc_bin = deep ? 3 : 1;
		if (lens[i] > 70000) nc_text = nc_bin = 1;    /* the 1 MiB payload in one content class only */
		for (c = 0; c < nc_text; c++) { data[ndata].op = OP_TEXT; data[ndata].arg = lens[i]; data[ndata++].content = c; }
		for (c = 0; c < nc_bin; c++) { data[ndata].op = OP_BIN; data[ndata].arg = lens[i]; data[ndata++].content = c; }
	}
	memset(&it, 0, sizeof it); it.type = IT_SEND;
	for (w = 0; w < 3; w++) {
		it.where = w;
		/* close codes alone and after one data frame */
		for (i = 0; i < sizeof codes / sizeof codes[0]; i++) {
			it.nops = 1; it.ops[0].op = OP_CLOSE; it.ops[0].arg = codes[i]; it.ops[0].content = 0; add_item(&it);
			it.nops = 2; it.ops[0] = data[(i * 5) % ndata]; it.ops[1].op = OP_CLOSE; it.ops[1].arg = codes[i]; it.ops[1].content = 0; add_item(&it);
		}
		for (a = 0; a < ndata; a++) {
			it.nops = 1; it.ops[0] = data[a]; add_item(&it);
			for (b = 0; b < ndata; b++) {
				/* quick: payloads >= 64 KiB are expensive here (buffers beyond 128 KiB are mmap'ed
				 * under ASan); they are sent alone from every call site, and in pairs only next to
				 * the 126-byte payload from the request handler */
				if (!deep) {
					int ba = data[a].arg > 60000, bb = data[b].arg > 60000;
					long other = ba ? data[b].arg : data[a].arg, big = ba ? data[a].arg : data[b].arg;
					(void)big;
					if (ba && bb) continue;
					if ((ba || bb) && (other != 126 || w != WH_HANDLER)) continue;
				}
				for (cl = 0; cl < 2; cl++) {
					it.nops = 2 + cl; it.ops[0] = data[a]; it.ops[1] = data[b];
					it.ops[2].op = OP_CLOSE; it.ops[2].arg = 1000; it.ops[2].content = 0;
					add_item(&it);
				}
			}
		}
	}
	/* deep: three data frames in a row (frame boundaries between all length forms), from the request handler
	 * and from a message callback */
	if (deep) {
		static const long l3[] = { 0, 125, 126, 65535, 65536 };
		struct op d3[10]; int n3 = 0, x, y, z;
		for (i = 0; i < sizeof l3 / sizeof l3[0]; i++) {
			d3[n3].op = OP_TEXT; d3[n3].arg = l3[i]; d3[n3++].content = 0;
			d3[n3].op = OP_BIN; d3[n3].arg = l3[i]; d3[n3++].content = 0;
		}
		for (w = 0; w < 3; w += 2)
			for (x = 0; x < n3; x++) for (y = 0; y < n3; y++) for (z = 0; z < n3; z++) {
				it.where = w; it.nops = 4; it.ops[0] = d3[x]; it.ops[1] = d3[y]; it.ops[2] = d3[z];
				it.ops[3].op = OP_CLOSE; it.ops[3].arg = 1001; it.ops[3].content = 0;
				add_item(&it);
			}
	}
}

static void fill_payload(unsigned char *p, long n, int op, int content)
{
	long i;
	for (i = 0; i < n; i++) {
		unsigned x = (unsigned)i * 131u + 5u;
		if (op == OP_TEXT) p[i] = content ? (unsigned char)(0x80 | (x & 0x7f)) : (unsigned char)(0x20 + x % 95);   /* never NUL: evws_send_text takes a C string */
		else p[i] = content == 0 ? (unsigned char)x : content == 1 ? 0x00 : 0xff;
	}
	if (op == OP_BIN && content == 0 && n > 0) p[0] = 0x00;   /* a leading NUL must not shorten binary data */
}

/* ------------------------------------------------------------------ */
static const struct c32_item *cur_it;
static unsigned char *pay[4]; static int sends_done;

static void do_sends(struct ws_sess *s)
{
	int i;
	if (sends_done || !s->evws) return;
	sends_done = 1;
	for (i = 0; i < cur_it->nops; i++) {
		const struct op *o = &cur_it->ops[i];
		if (o->op == OP_TEXT) evws_send_text(s->evws, (const char *)pay[i]);
		else if (o->op == OP_BIN) evws_send_binary(s->evws, (const char *)pay[i], (size_t)o->arg);
		else evws_close(s->evws, (uint16_t)o->arg);
	}
}
static void hook_accept(struct ws_sess *s) { if (cur_it->type == IT_SEND && cur_it->where == WH_HANDLER) do_sends(s); }
static void hook_msg(struct ws_sess *s) { if (cur_it->type == IT_SEND && cur_it->where == WH_MSGCB) do_sends(s); }

static const char *opn(int op) { return op == OP_TEXT ? "text" : op == OP_BIN ? "binary" : "close"; }

static void check_sends(struct ws_sess *s, const struct c32_item *it)
{
	struct rfc6455_dec d; int i, expect_close = 0; size_t mi = 0; char key[160];
	rfc6455_dec_init(&d, UINT64_MAX >> 1, -1 /* a server must not mask */);
	if (s->rxlen > s->hs_len) rfc6455_dec_feed(&d, s->rx + s->hs_len, s->rxlen - s->hs_len);
	mc_observe(" => %zu bytes, %zu frames, state %s", s->rxlen - s->hs_len, d.nframes, rfc6455_reason_name(d.reason));
	MC_COUNT("oracle_outgoing_stream_decoded");
	if (d.state == RFC6455_FAILED) {
		snprintf(key, sizeof key, "C32/frame/undecodable/%s", rfc6455_reason_name(d.reason));
		mc_fail(key, "bytes written by the server are not a valid unmasked frame sequence: %s at frame %d", rfc6455_reason_name(d.reason), d.frame_index_of_end);
		goto out;
	}
	if (d.nframes != (size_t)it->nops) {
		mc_fail("C32/frame/count", "%d send calls produced %zu frames (+%zu undecoded bytes)", it->nops, d.nframes, rfc6455_dec_pending(&d));
		goto out;
	}
	for (i = 0; i < it->nops; i++) {
		const struct op *o = &it->ops[i]; const struct rfc6455_frame *f = &d.frames[i];
		const char *n = opn(o->op);
		uint64_t want_len = o->op == OP_CLOSE ? 2 : (uint64_t)o->arg;
		int want_op = o->op == OP_TEXT ? 1 : o->op == OP_BIN ? 2 : 8;
		MC_COUNT("oracle_frame_checked");
		if (!f->fin) { snprintf(key, sizeof key, "C32/frame/%s/not-fin", n); mc_fail(key, "frame %d (%s %ld) has FIN=0", i, n, o->arg); }
		if (f->opcode != want_op) { snprintf(key, sizeof key, "C32/frame/%s/opcode", n); mc_fail(key, "frame %d (%s %ld) has opcode %d", i, n, o->arg, f->opcode); }
		if (f->len != want_len) { snprintf(key, sizeof key, "C32/frame/%s/length", n); mc_fail(key, "frame %d (%s %ld) declares %llu bytes", i, n, o->arg, (unsigned long long)f->len); }
		else if (f->lenform != rfc6455_minimal_lenform(want_len)) {
			snprintf(key, sizeof key, "C32/frame/%s/length-form-not-minimal", n);
			mc_fail(key, "frame %d (%s %ld) uses the %d-bit length form, minimal is %d", i, n, o->arg, f->lenform, rfc6455_minimal_lenform(want_len));
		}
		if (o->op == OP_CLOSE) {
			expect_close = 1;
			MC_COUNT("oracle_close_code_checked");
			if (!d.have_close_code || d.close_code != (unsigned)o->arg)
				mc_fail("C32/frame/close/status-code", "evws_close(%ld) wrote status %u", o->arg, d.have_close_code ? d.close_code : 0xfffffu);
		} else {
			MC_COUNT("oracle_payload_compared");
			if (mi >= d.nmsgs || d.msgs[mi].opcode != want_op || d.msgs[mi].len != (size_t)o->arg ||
			    (o->arg && memcmp(d.msgs[mi].data, pay[i], (size_t)o->arg))) {
				snprintf(key, sizeof key, "C32/frame/%s/payload", n);
				mc_fail(key, "frame %d (%s %ld): decoded message differs from what was sent", i, n, o->arg);
			}
			mi++;
		}
	}
	if (rfc6455_dec_pending(&d) && !expect_close)
		mc_fail("C32/frame/trailing-bytes", "%zu bytes after the last frame", rfc6455_dec_pending(&d));
	if (expect_close) {
		MC_COUNT("oracle_closed_after_close_frame");
		if (d.state != RFC6455_CLOSED) mc_fail("C32/frame/close/missing", "no close frame decoded");
		if (!s->closed || !s->rx_eof) mc_fail("C32/close/connection-not-closed", "after evws_close: close callback %d, eof %d", s->closed, s->rx_eof);
	}
out:
	rfc6455_dec_free(&d);
}

static void check_handshake(struct ws_sess *s, int ok101)
{
	char got[128], want[29]; int cnt; char key[120];
	if (!s->accepted) {
		MC_COUNT("upgrade_refused");
		if (ok101) mc_fail("C32/101-without-session", "101 answered but evws_new_session failed");
		mc_observe(" => refused (handler calls %d)", s->handler_calls);
		return;
	}
	MC_COUNT("oracle_accept_compared");
	if (!ok101) { mc_fail("C32/accepted-without-101", "session created but the response is not 101: %.40s", s->rxlen ? (char *)s->rx : ""); return; }
	cnt = ws_resp_header(s, "Sec-WebSocket-Accept", got, sizeof got);
	if (rfc6455_accept(s->key_seen, s->key_seen_len, want) < 0) { mc_fail("harness:C32-openssl", "SHA1/base64 failed"); return; }
	mc_observe(" => 101 accept=%s", got);
	if (cnt != 1) { mc_fail("C32/accept-header-count", "%d Sec-WebSocket-Accept headers", cnt); return; }
	if (strcmp(got, want)) {
		/* 987 = 1023 - strlen(GUID): where ws_gen_accept_key's fixed buffer ends; a mismatch for a
		 * shorter key is a different defect and gets a different key */
		snprintf(key, sizeof key, "C32/accept-mismatch/%s", s->key_seen_len > 987 ? "key-longer-than-987-bytes" : "key-up-to-987-bytes");
		mc_fail(key, "key of %zu bytes: Sec-WebSocket-Accept is %s, base64(SHA-1(key+GUID)) is %s", s->key_seen_len, got, want);
	}
}

static void item(uint64_t idx)
{
	const struct c32_item *it = &items[idx];
	struct ws_sess s; int ok101, i;
	cur_it = it; sends_done = 0;
	pay[0] = pay[1] = pay[2] = pay[3] = NULL;
	if (it->type == IT_KEY) {
		char *k = malloc((size_t)it->keylen + 1);
		if (!k) abort();
		fill_key(k, it->keylen, it->kclass, it->seed);
		mc_observe("key len=%ld class=%s limit=%ld", it->keylen, kclass_name[it->kclass], it->limit);
		if (ws_sess_open(&s, "C32", (size_t)it->limit) < 0) { ws_sess_close(&s); free(k); return; }
		ok101 = ws_sess_handshake(&s, k, it->keylen);
		if (s.have_key && s.key_seen_len != (size_t)it->keylen) MC_COUNT("keys_trimmed_by_http_parser");
		check_handshake(&s, ok101);
		if (s.accepted) {
			mc_nontrivial(mc_hash(mc_hash_u64(0, (uint64_t)it->limit), s.key_seen, s.key_seen_len));
			if (s.key_seen_len > 987) MC_COUNT("accepted_keys_longer_than_987"); else MC_COUNT("accepted_keys_up_to_987");
		}
		free(k);
		ws_sess_close(&s);
		return;
	}
	for (i = 0; i < it->nops; i++) {
		const struct op *o = &it->ops[i];
		mc_observe("%s%s(%ld%s)", i ? " " : "", opn(o->op), o->arg, o->op == OP_CLOSE ? "" : o->content == 0 ? ",pattern" : o->content == 1 ? ",alt" : ",0xff");
		if (o->op == OP_CLOSE) continue;
		pay[i] = malloc((size_t)o->arg + 1);
		if (!pay[i]) abort();
		fill_payload(pay[i], o->arg, o->op, o->content);
		pay[i][o->arg] = 0;
	}
	mc_observe(" %s", it->where == WH_HANDLER ? "in-request-handler" : it->where == WH_OUTSIDE ? "outside-callbacks" : "in-message-callback");
	if (ws_sess_open(&s, "C32", 0) < 0) goto done;
	ok101 = ws_sess_handshake(&s, "dGhlIHNhbXBsZSBub25jZQ==", 24);
	check_handshake(&s, ok101);
	if (!ok101 || !s.accepted) { mc_fail("harness:C32-handshake", "upgrade refused"); goto done; }
	if (it->where == WH_OUTSIDE) { do_sends(&s); ws_pump(&s); }
	else if (it->where == WH_MSGCB) {
		static const unsigned char go[] = { 0x81, 0x82, 1, 2, 3, 4, 'g' ^ 1, 'o' ^ 2 };
		ws_send_segment(&s, go, sizeof go);
	}
	if (!sends_done) { mc_fail("harness:C32-sends-not-issued", "where=%d", it->where); goto done; }
	check_sends(&s, it);
	mc_nontrivial(mc_hash_u64(0x5e0d, idx));
done:
	ws_sess_close(&s);
	for (i = 0; i < 4; i++) free(pay[i]);
}

static void init(void)
{
	mcx_alloc_install();
	event_set_log_callback(ws_log_quiet);
	ws_after_accept = hook_accept;
	ws_in_msg = hook_msg;
}

int main(int c, char **v)
{
	struct mc_config cfg = { .property = "C32", .item = item, .init = init };
	int deep = 0, i;
	for (i = 1; i + 1 < c; i++) if (!strcmp(v[i], "-P") && !strncmp(v[i + 1], "deep=", 5)) deep = atoi(v[i + 1] + 5);
	build_items(deep);
	cfg.n_items = nitems;
	return mc_main(c, v, &cfg);
}
