/* C41 — ASCII helpers and evutil_sockaddr_cmp of the real evutil.c against
 * independent reference definitions.  Shard mode, one run:
 *   [0,256)          byte c: the 8 character classes and both case maps of c; for every byte d the
 *                    comparisons of "c" / "d", "cd" / "dc", "cd" / "Cd" and the substring search of d in "cdc"
 *   [256,256+NS)     first string s1 over S (length <= slen): for every s2: strcasecmp, strncasecmp n=0..slen+1,
 *                    strcasestr(s1, s2) (needle length <= 3)
 *   then RT items    evutil_rtrim_lws_ on all strings of one length over {a SP TAB LF}
 *   then SN items    evutil_snprintf: one format case x every buffer size 0..n+2
 *   then NA items    evutil_sockaddr_cmp: a x all (b, c) of the catalogue, with and without ports
 * All strings live at the end of exactly-sized heap blocks (ASan sees reads past the NUL).
 */
#include "mcx.h"
/* small ASan quarantine: freed blocks are reused quickly instead of every malloc touching fresh pages (20-40x faster here) */
const char *__asan_default_options(void) { return "quarantine_size_mb=4:thread_local_quarantine_size_kb=64"; }
#include <stdio.h>
#include <stdlib.h>
#include <string.h>
#include <stdarg.h>
#include <limits.h>
#include <netinet/in.h>
#include <sys/socket.h>
#include "event2/util.h"
#include "util-internal.h"

#define ONCE(f) (!(f)++)
static int sgn(int x) { return (x > 0) - (x < 0); }

static char *blkcache[4][128];
static char *blk(int set, int n) { if (!blkcache[set][n]) blkcache[set][n] = malloc(n); return blkcache[set][n]; }
static char *xs(int set, const char *s, int n) { char *b = blk(set, n + 1); memcpy(b, s, n); b[n] = 0; return b; }

/* ---- reference definitions (ASCII, locale independent) */
static int r_upper(int c) { return c >= 'A' && c <= 'Z'; }
static int r_lower(int c) { return c >= 'a' && c <= 'z'; }
static int r_alpha(int c) { return r_upper(c) || r_lower(c); }
static int r_digit(int c) { return c >= '0' && c <= '9'; }
static int r_alnum(int c) { return r_alpha(c) || r_digit(c); }
static int r_space(int c) { return c == ' ' || (c >= 9 && c <= 13); }
static int r_xdigit(int c) { return r_digit(c) || (c >= 'a' && c <= 'f') || (c >= 'A' && c <= 'F'); }
static int r_print(int c) { return c >= 32 && c <= 126; }
static int r_tolower(int c) { return r_upper(c) ? c + 32 : c; }
static int r_toupper(int c) { return r_lower(c) ? c - 32 : c; }

/* sign of the comparison of the folded strings; *ascii is cleared when the deciding bytes are not both < 0x80 */
static int r_ncasecmp(const unsigned char *a, const unsigned char *b, size_t n, int *ascii)
{
	for (size_t i = 0; i < n; i++) {
		int x = r_tolower(a[i]), y = r_tolower(b[i]);
		if (x != y) { if (x >= 0x80 || y >= 0x80) *ascii = 0; return x < y ? -1 : 1; }
		if (!x) return 0;
	}
	return 0;
}
static const char *r_casestr(const char *h, const char *nd)
{
	size_t ln = strlen(nd), lh = strlen(h); int asc;
	if (!ln) return h;
	for (size_t i = 0; i + ln <= lh; i++)
		if (r_ncasecmp((const unsigned char *)h + i, (const unsigned char *)nd, ln, &asc) == 0) return h + i;
	return NULL;
}

/* ---- comparisons of one pair */
static struct { int cmp, ncmp, str, anti; } rep;
static uint64_t n_cmp, n_ncmp, n_str, n_str_found, n_equal;

static void show(char *o, const char *s) { for (; *s; s++) { unsigned char c = *s; if (c > 32 && c < 127 && c != '\\') *o++ = c; else o += sprintf(o, "\\x%02x", c); } *o = 0; }

static void check_pair(const char *a, int la, const char *b, int lb, int maxn, int do_str)
{
	const char *A = xs(0, a, la), *B = xs(1, b, lb);
	char sa[64], sb[64];
	int ascii = 1;
	int want = r_ncasecmp((const unsigned char *)a, (const unsigned char *)b, (size_t)-1 >> 1, &ascii);
	int got = evutil_ascii_strcasecmp(A, B), back = evutil_ascii_strcasecmp(B, A);
	n_cmp++; if (!want) n_equal++;
	if ((ascii ? sgn(got) != want : (got == 0) != (want == 0)) && ONCE(rep.cmp)) { show(sa, a); show(sb, b); mc_fail("C41/strcasecmp/wrong-result", "(\"%s\", \"%s\") = %d, reference sign %d", sa, sb, got, want); }
	if (sgn(got) != -sgn(back) && ONCE(rep.anti)) { show(sa, a); show(sb, b); mc_fail("C41/strcasecmp/not-antisymmetric", "(\"%s\", \"%s\") = %d but reversed = %d", sa, sb, got, back); }
	for (int n = 0; n <= maxn; n++) {
		ascii = 1;
		want = r_ncasecmp((const unsigned char *)a, (const unsigned char *)b, n, &ascii);
		got = evutil_ascii_strncasecmp(A, B, n);
		n_ncmp++;
		if ((ascii ? sgn(got) != want : (got == 0) != (want == 0)) && ONCE(rep.ncmp)) { show(sa, a); show(sb, b); mc_fail("C41/strncasecmp/wrong-result", "(\"%s\", \"%s\", %d) = %d, reference sign %d", sa, sb, n, got, want); }
	}
	/* a huge n must behave like strcasecmp */
	ascii = 1; want = r_ncasecmp((const unsigned char *)a, (const unsigned char *)b, (size_t)-1 >> 1, &ascii);
	got = evutil_ascii_strncasecmp(A, B, (size_t)-1);
	if ((ascii ? sgn(got) != want : (got == 0) != (want == 0)) && ONCE(rep.ncmp)) { show(sa, a); show(sb, b); mc_fail("C41/strncasecmp/wrong-result", "(\"%s\", \"%s\", SIZE_MAX) = %d, reference sign %d", sa, sb, got, want); }
	if (do_str) {
		const char *w = r_casestr(a, b), *g = evutil_ascii_strcasestr(A, B);
		n_str++; if (w) n_str_found++;
		if (((w == NULL) != (g == NULL) || (w && w - a != g - A)) && ONCE(rep.str)) { show(sa, a); show(sb, b);
			mc_fail("C41/strcasestr/wrong-result", "search \"%s\" in \"%s\": offset %ld, reference %ld (-1 = not found)", sb, sa, g ? (long)(g - A) : -1L, w ? (long)(w - a) : -1L); }
	}
}

static void flush_pairs(void)
{
	MC_COUNTN("strcasecmp_pairs", n_cmp); MC_COUNTN("strcasecmp_pairs_equal", n_equal); MC_COUNTN("strncasecmp_calls", n_ncmp);
	MC_COUNTN("strcasestr_calls", n_str); MC_COUNTN("strcasestr_found", n_str_found);
	n_cmp = n_ncmp = n_str = n_str_found = n_equal = 0;
}

/* ---- part A: bytes */
static void item_byte(uint64_t ci)
{
	int c = (int)ci, bad = 0;
	char ch = (char)c;
	struct { const char *name; int got, want; } cl[] = {
		{ "ISALPHA", EVUTIL_ISALPHA_(ch), r_alpha(c) }, { "ISALNUM", EVUTIL_ISALNUM_(ch), r_alnum(c) }, { "ISSPACE", EVUTIL_ISSPACE_(ch), r_space(c) },
		{ "ISDIGIT", EVUTIL_ISDIGIT_(ch), r_digit(c) }, { "ISXDIGIT", EVUTIL_ISXDIGIT_(ch), r_xdigit(c) }, { "ISPRINT", EVUTIL_ISPRINT_(ch), r_print(c) },
		{ "ISLOWER", EVUTIL_ISLOWER_(ch), r_lower(c) }, { "ISUPPER", EVUTIL_ISUPPER_(ch), r_upper(c) } };
	for (unsigned i = 0; i < 8; i++) {
		char key[64];
		if (cl[i].got != cl[i].want) { snprintf(key, sizeof key, "C41/ctype/%s", cl[i].name); mc_fail(key, "EVUTIL_%s_(0x%02x) = %d, ASCII definition %d", cl[i].name, c, cl[i].got, cl[i].want); bad++; }
	}
	if ((unsigned char)EVUTIL_TOLOWER_(ch) != r_tolower(c)) mc_fail("C41/ctype/TOLOWER", "EVUTIL_TOLOWER_(0x%02x) = 0x%02x", c, (unsigned char)EVUTIL_TOLOWER_(ch));
	if ((unsigned char)EVUTIL_TOUPPER_(ch) != r_toupper(c)) mc_fail("C41/ctype/TOUPPER", "EVUTIL_TOUPPER_(0x%02x) = 0x%02x", c, (unsigned char)EVUTIL_TOUPPER_(ch));
	MC_COUNTN("ctype_checks", 10);
	memset(&rep, 0, sizeof rep);
	for (int d = 0; d < 256; d++) {
		char s1[4] = { (char)c, 0 }, s2[4] = { (char)d, 0 };
		check_pair(s1, c ? 1 : 0, s2, d ? 1 : 0, 2, 1);
		if (c && d) {
			char cd[4] = { (char)c, (char)d, 0 }, dc[4] = { (char)d, (char)c, 0 }, Cd[4] = { (char)(r_alpha(c) ? c ^ 32 : c), (char)d, 0 }, cdc[4] = { (char)c, (char)d, (char)c, 0 };
			check_pair(cd, 2, dc, 2, 3, 1);
			check_pair(cd, 2, Cd, 2, 3, 1);
			check_pair(cdc, 3, s2, 1, 0, 1);
			check_pair(cdc, 3, dc, 2, 0, 1);
			/* two-byte needle "cd": after a failed partial match ("ccd") and behind the bit-5 twin of its first byte */
			char ccd[4] = { (char)c, (char)c, (char)d, 0 }, tcd[4] = { (char)(c ^ 0x20), (char)c, (char)d, 0 }, td[4] = { (char)(c ^ 0x20), (char)d, 0 };
			check_pair(ccd, 3, cd, 2, 0, 1);
			if ((c ^ 0x20) != 0) { check_pair(tcd, 3, cd, 2, 0, 1); check_pair(td, 2, cd, 2, 0, 1); }
		}
	}
	flush_pairs();
	mc_nontrivial(ci + 1);
	mc_observe("byte 0x%02x: classes alpha=%d alnum=%d space=%d digit=%d xdigit=%d print=%d lower=%d upper=%d; compared with all 256 bytes", c, cl[0].got, cl[1].got, cl[2].got, cl[3].got, cl[4].got, cl[5].got, cl[6].got, cl[7].got);
}

/* ---- part B: strings over S */
static const char S[] = { 'a', 'A', 'b', 'B', 'Z', '[', '{', '@', '`' };   /* '[' '{' and '@' '`' differ by 0x20 but are no letters; 'Z' < '[' < 'a' separates lower- from upper-folding */
static int NSYM = 8, SLEN = 3, HLEN = 0;      /* HLEN > SLEN: first strings up to HLEN, those longer than SLEN only against needles of length <= 3 */
static uint64_t n_strings(int A, int L) { uint64_t n = 0, p = 1; for (int l = 0; l <= L; l++) { n += p; p *= A; } return n; }
static int nth_string(uint64_t idx, char *out)     /* shortlex order; returns the length */
{
	int l = 0; uint64_t p = 1;
	while (idx >= p) { idx -= p; p *= NSYM; l++; }
	for (int i = 0; i < l; i++) { out[i] = S[idx % NSYM]; idx /= NSYM; }
	out[l] = 0;
	return l;
}
static void item_strings(uint64_t i1)
{
	char s1[16], s2[16]; int l1 = nth_string(i1, s1);
	uint64_t total = n_strings(NSYM, l1 > SLEN ? 3 : SLEN);
	memset(&rep, 0, sizeof rep);
	for (uint64_t i2 = 0; i2 < total; i2++) {
		int l2 = nth_string(i2, s2);
		check_pair(s1, l1, s2, l2, l1 > SLEN ? 1 : SLEN + 1, l2 <= 3);
	}
	flush_pairs();
	mc_nontrivial(0x1000000 + i1);
	char sh[64]; show(sh, s1);
	mc_observe("string \"%s\" against all %llu strings of length <= %d over {a A b B Z [ { @ `}[0..%d)", sh, (unsigned long long)total, l1 > SLEN ? 3 : SLEN, NSYM);
}

/* ---- part C: rtrim */
static int RTMAX = 7;
static void item_rtrim(uint64_t len)
{
	static const char R[] = { 'a', ' ', '\t', '\n' };
	uint64_t total = 1, changed = 0; int bad = 0;
	for (uint64_t i = 0; i < len; i++) total *= 4;
	char s[32], want[32];
	for (uint64_t c = 0; c < total; c++) {
		uint64_t x = c;
		for (uint64_t i = 0; i < len; i++) { s[i] = R[x % 4]; x /= 4; }
		s[len] = 0;
		strcpy(want, s);
		for (int k = (int)len - 1; k >= 0 && (want[k] == ' ' || want[k] == '\t'); k--) want[k] = 0;
		char *buf = xs(2, s, (int)len);          /* block of exactly len+1 bytes: a step before the start or past the NUL is seen by ASan */
		evutil_rtrim_lws_(buf);
		if (strcmp(buf, s)) changed++;
		if (strcmp(buf, want) && ONCE(bad)) { char a[128], b[128]; show(a, s); show(b, buf); mc_fail("C41/rtrim_lws/wrong-result", "\"%s\" -> \"%s\"", a, b); }
	}
	evutil_rtrim_lws_(NULL);
	MC_COUNTN("rtrim_strings", total); MC_COUNTN("rtrim_strings_trimmed", changed);
	mc_nontrivial(0x2000000 + len);
	mc_observe("rtrim_lws: all %llu strings of length %llu over {a SP TAB LF}, %llu trimmed", (unsigned long long)total, (unsigned long long)len, (unsigned long long)changed);
}

/* ---- part D: snprintf */
static int sn_bad;
static uint64_t sn_calls;
static void sn_case(const char *what, const char *expect, int (*call)(char *, size_t, const void *), const void *arg)
{
	int n = strlen(expect);
	for (int sz = 0; sz <= n + 2; sz++) {
		char *b = blk(3, sz);
		if (sz) memset(b, 0x5a, sz);
		int r = call(b, sz, arg);
		sn_calls++;
		if (sz == 0) {   /* nothing may be written (ASan: zero-size block); libevent documents 0 here, C99 would say n */
			if (r != 0 && r != n && ONCE(sn_bad)) mc_fail("C41/snprintf/size0-return", "%s: returned %d for buflen 0 (neither 0 nor %d)", what, r, n);
			continue;
		}
		int keep = n < sz - 1 ? n : sz - 1;
		if (r != n && ONCE(sn_bad)) mc_fail("C41/snprintf/return-value", "%s: buflen %d returned %d, the full length is %d", what, sz, r, n);
		if ((memcmp(b, expect, keep) || b[keep] != 0) && ONCE(sn_bad)) mc_fail("C41/snprintf/content", "%s: buflen %d: wrong or unterminated content", what, sz);
	}
}
static int call_s(char *b, size_t n, const void *a) { return evutil_snprintf(b, n, "%s", (const char *)a); }
static int call_d(char *b, size_t n, const void *a) { return evutil_snprintf(b, n, "%d", *(const int *)a); }
static int call_x(char *b, size_t n, const void *a) { return evutil_snprintf(b, n, "%x", *(const unsigned *)a); }
static int call_ld(char *b, size_t n, const void *a) { return evutil_snprintf(b, n, "%ld", *(const long *)a); }
static int call_mix(char *b, size_t n, const void *a) { return evutil_snprintf(b, n, "[%s]:%d", (const char *)a, 80); }
static int call_pad(char *b, size_t n, const void *a) { return evutil_snprintf(b, n, "%5d|%-4s|%04x", *(const int *)a, "ab", 0x2fu); }
static int call_lit(char *b, size_t n, const void *a) { (void)a; return evutil_snprintf(b, n, "100%% literal"); }

static void item_snprintf(uint64_t idx)
{
	static const char *STR[] = { "", "a", "ab", "abc", "hello, world", "0123456789012345678901234567890123456789", "tab\tnl\n", "\x80\xff" };
	static const int INTS[] = { 0, 1, -1, 9, 10, -10, 99, 100, 255, 256, 65535, 65536, INT_MAX, INT_MIN, INT_MAX - 1, INT_MIN + 1 };
	static const long LONGS[] = { 0, -1, LONG_MAX, LONG_MIN, 4294967296L, -4294967297L };
	char exp[128], what[64];
	sn_bad = 0; sn_calls = 0;
	if (idx < 8) { snprintf(what, sizeof what, "%%s case %d", (int)idx); sn_case(what, STR[idx], call_s, STR[idx]);
		snprintf(exp, sizeof exp, "[%s]:%d", STR[idx], 80); snprintf(what, sizeof what, "[%%s]:%%d case %d", (int)idx); sn_case(what, exp, call_mix, STR[idx]); }
	else if (idx < 24) { int v = INTS[idx - 8]; snprintf(exp, sizeof exp, "%d", v); snprintf(what, sizeof what, "%%d of %d", v); sn_case(what, exp, call_d, &v);
		unsigned u = (unsigned)v; snprintf(exp, sizeof exp, "%x", u); snprintf(what, sizeof what, "%%x of %u", u); sn_case(what, exp, call_x, &u);
		snprintf(exp, sizeof exp, "%5d|%-4s|%04x", v, "ab", 0x2fu); snprintf(what, sizeof what, "padded %d", v); sn_case(what, exp, call_pad, &v); }
	else if (idx < 30) { long v = LONGS[idx - 24]; snprintf(exp, sizeof exp, "%ld", v); snprintf(what, sizeof what, "%%ld of %ld", v); sn_case(what, exp, call_ld, &v); }
	else sn_case("literal", "100% literal", call_lit, NULL);
	MC_COUNTN("snprintf_calls", sn_calls);
	mc_nontrivial(0x3000000 + idx);
	mc_observe("snprintf case %llu (\"%s\"): every buffer size 0..n+2", (unsigned long long)idx, exp);
}
#define N_SN 31

/* ---- part E: sockaddr_cmp */
#define NCAT 64
static struct sockaddr_storage CAT[NCAT]; static int ncat;
static void build_cat(void)
{
	if (ncat) return;
	static const uint32_t A4[] = { 0, 1, 0x01000000, 0x00000100, 0x7f000001, 0x80000000, 0xff000000, 0x000000ff, 0xffffffff, 0x0a000001 };
	static const unsigned char A6[][16] = {
		{0}, {0,0,0,0,0,0,0,0,0,0,0,0,0,0,0,1}, {1}, {0,1}, {0x80}, {0xff,0xff,0xff,0xff,0xff,0xff,0xff,0xff,0xff,0xff,0xff,0xff,0xff,0xff,0xff,0xff},
		{0x20,0x01,0x0d,0xb8,0,0,0,0,0,0,0,0,0,0,0,1}, {0x20,0x01,0x0d,0xb8,0,0,0,0,0,0,0,0,0,0,1,0}, {0,0,0,0,0,0,0,0,0,0,0xff,0xff,0x7f,0,0,1}, {0,0,0,0,0,0,0,0,0x80,0,0,0,0,0,0,0}, {0x7f,0xff} };
	static const int P[] = { 0, 1, 0x0100, 0x00ff, 0x8000, 65535 };
	for (unsigned a = 0; a < sizeof A4 / sizeof A4[0] && ncat < NCAT; a++) for (int p = 0; p < 3 && ncat < NCAT; p++) {
		struct sockaddr_in *s = (struct sockaddr_in *)&CAT[ncat++]; memset(s, 0, sizeof *s);
		s->sin_family = AF_INET; s->sin_addr.s_addr = htonl(A4[a]); s->sin_port = htons(P[(a + p * 2) % 6]);
	}
	for (unsigned a = 0; a < sizeof A6 / sizeof A6[0] && ncat < NCAT; a++) for (int p = 0; p < 3 && ncat < NCAT; p++) {
		struct sockaddr_in6 *s = (struct sockaddr_in6 *)&CAT[ncat++]; memset(s, 0, sizeof *s);
		s->sin6_family = AF_INET6; memcpy(&s->sin6_addr, A6[a], 16); s->sin6_port = htons(P[(a + p * 2 + 1) % 6]);
	}
}
static int sa_len(const struct sockaddr_storage *s) { return s->ss_family == AF_INET ? sizeof(struct sockaddr_in) : sizeof(struct sockaddr_in6); }
/* reference equality */
static int sa_equal(const struct sockaddr_storage *a, const struct sockaddr_storage *b, int port)
{
	if (a->ss_family != b->ss_family) return 0;
	if (a->ss_family == AF_INET) { const struct sockaddr_in *x = (const void *)a, *y = (const void *)b; return x->sin_addr.s_addr == y->sin_addr.s_addr && (!port || x->sin_port == y->sin_port); }
	const struct sockaddr_in6 *x = (const void *)a, *y = (const void *)b; return !memcmp(&x->sin6_addr, &y->sin6_addr, 16) && (!port || x->sin6_port == y->sin6_port);
}
static void item_sockaddr(uint64_t ai)
{
	build_cat();
	int r_eq = 0, r_anti = 0, r_trans = 0, r_self = 0; uint64_t pairs = 0, triples = 0, equal = 0;
	/* exactly-sized copies: a sockaddr_in is 16 bytes, reading it as sockaddr_in6 would be seen */
	struct sockaddr *a = (struct sockaddr *)blk(0, sa_len(&CAT[ai])); memcpy(a, &CAT[ai], sa_len(&CAT[ai]));
	for (int port = 0; port < 2; port++) {
		if (evutil_sockaddr_cmp(a, a, port) != 0 && ONCE(r_self)) mc_fail("C41/sockaddr_cmp/not-reflexive", "entry %d include_port=%d", (int)ai, port);
		for (int bi = 0; bi < ncat; bi++) {
			struct sockaddr *b = (struct sockaddr *)blk(1, sa_len(&CAT[bi])); memcpy(b, &CAT[bi], sa_len(&CAT[bi]));
			int ab = evutil_sockaddr_cmp(a, b, port), ba = evutil_sockaddr_cmp(b, a, port);
			int eq = sa_equal(&CAT[ai], &CAT[bi], port);
			pairs++; equal += eq;
			if ((ab == 0) != eq && ONCE(r_eq)) mc_fail("C41/sockaddr_cmp/equality", "entries %d,%d include_port=%d: cmp=%d but addresses are %s", (int)ai, bi, port, ab, eq ? "equal" : "different");
			if (sgn(ab) != -sgn(ba) && ONCE(r_anti)) mc_fail("C41/sockaddr_cmp/not-antisymmetric", "entries %d,%d include_port=%d: %d vs %d", (int)ai, bi, port, ab, ba);
			for (int ci = 0; ci < ncat; ci++) {
				struct sockaddr *c = (struct sockaddr *)blk(2, sa_len(&CAT[ci])); memcpy(c, &CAT[ci], sa_len(&CAT[ci]));
				int bc = evutil_sockaddr_cmp(b, c, port), ac = evutil_sockaddr_cmp(a, c, port);
				triples++;
				if (ab <= 0 && bc <= 0 && !(ac <= 0) && ONCE(r_trans)) mc_fail("C41/sockaddr_cmp/not-transitive", "entries %d<=%d<=%d include_port=%d but cmp(a,c)=%d", (int)ai, bi, ci, port, ac);
				if (ab == 0 && sgn(bc) != sgn(ac) && ONCE(r_trans)) mc_fail("C41/sockaddr_cmp/equal-elements-order-differently", "entries %d==%d vs %d include_port=%d", (int)ai, bi, ci, port);
			}
		}
	}
	MC_COUNTN("sockaddr_cmp_pairs", pairs); MC_COUNTN("sockaddr_cmp_pairs_equal", equal); MC_COUNTN("sockaddr_cmp_triples", triples);
	mc_nontrivial(0x4000000 + ai);
	mc_observe("sockaddr_cmp entry %d (family %d) against all pairs of the %d-entry catalogue", (int)ai, CAT[ai].ss_family, ncat);
}

/* ---- */
static uint64_t NB_, NC_;
static void item(uint64_t i)
{
	if (i < 256) item_byte(i);
	else if ((i -= 256) < NB_) item_strings(i);
	else if ((i -= NB_) < NC_) item_rtrim(i);
	else if ((i -= NC_) < N_SN) item_snprintf(i);
	else item_sockaddr(i - N_SN);
}

int main(int argc, char **argv)
{
	for (int i = 1; i + 1 < argc; i++) if (!strcmp(argv[i], "-P")) {
		if (!strncmp(argv[i + 1], "slen=", 5)) SLEN = atoi(argv[i + 1] + 5);
		if (!strncmp(argv[i + 1], "nsym=", 5)) NSYM = atoi(argv[i + 1] + 5);
		if (!strncmp(argv[i + 1], "rtmax=", 6)) RTMAX = atoi(argv[i + 1] + 6);
		if (!strncmp(argv[i + 1], "hlen=", 5)) HLEN = atoi(argv[i + 1] + 5);
	}
	if (NSYM > (int)sizeof S) NSYM = sizeof S;
	build_cat();
	if (HLEN < SLEN) HLEN = SLEN;
	NB_ = n_strings(NSYM, HLEN); NC_ = RTMAX + 1;
	struct mc_config cfg = { .property = "C41", .n_items = 256 + NB_ + NC_ + N_SN + ncat, .item = item };
	return mc_main(argc, argv, &cfg);
}
