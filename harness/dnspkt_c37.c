/* C37 — evdns server request parsing (request_parse, tcp_read_message, server_tcp_read_packet_cb).
 *
 * Shard-mode enumeration of a request grammar (header x question structure x
 * question-name encoding x trailing sections, mutated captures) and every
 * byte prefix of every message, delivered to a real server port
 *   direct : request_parse(exact-size heap copy)      (ASan sees over-reads)
 *   udp    : loopback datagram -> server_udp_port_read
 *   tcp    : length-prefixed stream in 1-3 segments / pipelined with a second query
 * The user callback's arguments and the response are judged against the
 * RFC 1035 reference decoder (models/dnswire).
 */
#include "evdns.c"
#include "dnspkt_common.h"
#include "dnspkt_srv.h"
#include <stddef.h>
#include <sys/mman.h>

#define N_H 10
#define N_Q 8
#define N_N 17
#define N_S 14
enum { K_GRAMMAR, K_MUTANT, K_OPTSIZE };
struct spec { uint8_t kind, h, q, n, s; uint16_t mpos; uint8_t mval, canon; };
static const uint16_t hflags[N_H] = { 0x0100, 0x0000, 0x8100, 0x0900, 0x1100, 0x7900, 0x0300, 0x0170, 0x0103, 0x2900 };
#define REQ_ID 0xbeef

static void put_qname_variant(struct dp_buf *w, int n, size_t *fwd_at, size_t *cyc_at)
{
	switch (n) {
	default:
	case 0: dp_name(w, "www.example.test"); break;
	case 1: dp_u8(w, 0); break;
	case 2: dp_name(w, "WwW.ExAmple.TEST"); break;
	case 3: dp_u8(w, 4); dp_bytes(w, "\xc3\xa9\xff\x80", 4); dp_name(w, "example.test"); break;
	case 4: dp_u8(w, 5); dp_bytes(w, "ab\0cd", 5); dp_name(w, "example.test"); break;
	case 5: dp_u8(w, 3); dp_bytes(w, "a.b", 3); dp_name(w, "example.test"); break;
	case 6: dp_u8(w, 63); dp_fill(w, 'x', 63); dp_name(w, "example.test"); break;
	case 7: dp_u8(w, 64); dp_fill(w, 'y', 64); dp_name(w, "example.test"); break;
	case 8: for (int i = 0; i < 3; i++) { dp_u8(w, 63); dp_fill(w, 'a' + i, 63); } dp_u8(w, 61); dp_fill(w, 'z', 61); dp_u8(w, 0); break;   /* 255 octets */
	case 9: for (int i = 0; i < 3; i++) { dp_u8(w, 63); dp_fill(w, 'a' + i, 63); } dp_u8(w, 63); dp_fill(w, 'z', 63); dp_u8(w, 0); break;   /* 257 octets */
	case 10: dp_ptr(w, (unsigned)w->n); break;
	case 11: *fwd_at = w->n; dp_u16(w, 0xc000); break;
	case 12: dp_u16(w, 0xffff); break;
	case 13: *cyc_at = w->n; dp_u16(w, 0xc000); break;
	case 14: dp_ptr(w, 0); break;
	case 15: dp_u8(w, 3); dp_bytes(w, "www", 3); dp_ptr(w, 12); break;     /* label, then a pointer back to the label */
	case 16: for (int i = 0; i < 127; i++) { dp_u8(w, 1); dp_u8(w, 'a' + i % 26); } dp_u8(w, 0); break;   /* 127 labels: with a second name the response needs more than 128 compression-table entries */
	}
}

static void put_opt(struct dp_buf *w, unsigned size, int with_option)
{
	dp_u8(w, 0); dp_u16(w, 41); dp_u16(w, size); dp_u32(w, 0);
	if (with_option) { dp_u16(w, 8); dp_u16(w, 10); dp_u16(w, 4); dp_bytes(w, "cook", 4); } else dp_u16(w, 0);
}
static void put_a_rr(struct dp_buf *w, int owner_ptr)
{
	if (owner_ptr) dp_ptr(w, 12); else dp_name(w, "extra.example.test");
	dp_u16(w, 1); dp_u16(w, 1); dp_u32(w, 30); dp_u16(w, 4); dp_bytes(w, "\x0a\x00\x00\x01", 4);
}

static void build_request(const struct spec *s0, struct dp_buf *w)
{
	struct spec s = *s0; size_t fwd_at = 0, cyc_at = 0; int qd = 0, an = 0, ns = 0, ar = 0;
	if (s.kind == K_MUTANT) { s.h = 0; s.q = 5; s.n = 0; s.s = 5; }
	if (s.kind == K_OPTSIZE) { s.h = 0; s.q = 0; s.n = 0; }
	w->n = 0;
	dp_u16(w, REQ_ID); dp_u16(w, hflags[s.h]); dp_u16(w, 0); dp_u16(w, 0); dp_u16(w, 0); dp_u16(w, 0);
	switch (s.q) {
	case 0: put_qname_variant(w, s.n, &fwd_at, &cyc_at); dp_u16(w, 1); dp_u16(w, 1); qd = 1; break;
	case 1: put_qname_variant(w, s.n, &fwd_at, &cyc_at); dp_u16(w, 28); dp_u16(w, 1); qd = 1; break;
	case 2: put_qname_variant(w, s.n, &fwd_at, &cyc_at); dp_u16(w, 255); dp_u16(w, 255); qd = 1; break;
	case 3: qd = 0; break;
	case 4: put_qname_variant(w, s.n, &fwd_at, &cyc_at); dp_u16(w, 1); dp_u16(w, 1); dp_name(w, "second.example"); dp_u16(w, 16); dp_u16(w, 1); qd = 2; break;
	case 5: put_qname_variant(w, s.n, &fwd_at, &cyc_at); dp_u16(w, 1); dp_u16(w, 1); dp_u8(w, 3); dp_bytes(w, "sub", 3); dp_ptr(w, 12); dp_u16(w, 28); dp_u16(w, 1); qd = 2; break;
	case 6: qd = 1; break;
	case 7: put_qname_variant(w, s.n, &fwd_at, &cyc_at); dp_u16(w, 1); dp_u16(w, 1); qd = 65535; break;
	}
	switch (s.s) {
	case 0: break;
	case 1: put_opt(w, 4096, 0); ar = 1; break;
	case 2: put_opt(w, 600, 0); ar = 1; break;
	case 3: put_opt(w, 100, 0); ar = 1; break;
	case 4: put_opt(w, 65535, 1); ar = 1; break;
	case 5: put_a_rr(w, 0); put_opt(w, 1232, 0); ar = 2; break;
	case 6: put_a_rr(w, 0); an = 1; break;
	case 7: put_a_rr(w, 1); ns = 1; break;
	case 8: dp_name(w, "trunc.example"); dp_u16(w, 16); dp_u16(w, 1); dp_u32(w, 5); dp_u16(w, 100); dp_bytes(w, "abc", 3); an = 1; break;
	case 9: put_a_rr(w, 0); an = 2; break;
	case 10: put_opt(w, 2000, 0); ar = 65535; break;
	case 11: dp_ptr(w, (unsigned)w->n); dp_u16(w, 1); dp_u16(w, 1); dp_u32(w, 30); dp_u16(w, 0); an = 1; break;
	case 12: dp_name(w, "x"); dp_u16(w, 41); dp_u16(w, 3000); dp_u32(w, 0); dp_u16(w, 0); ar = 1; break;
	case 13: put_opt(w, 700, 0); put_opt(w, 4000, 0); ar = 2; break;
	}
	dp_patch16(w, 4, (unsigned)qd); dp_patch16(w, 6, (unsigned)an); dp_patch16(w, 8, (unsigned)ns); dp_patch16(w, 10, (unsigned)ar);
	if (fwd_at) { dp_patch16(w, fwd_at, 0xc000u | (unsigned)w->n); dp_name(w, "fwd.example.test"); }
	if (cyc_at) { dp_patch16(w, cyc_at, 0xc000u | (unsigned)w->n); dp_ptr(w, (unsigned)cyc_at); }
	if (s0->kind == K_MUTANT && s0->mpos < w->n) {
		uint8_t o = w->b[s0->mpos];
		switch (s0->mval) { case 0: o = 0; break; case 1: o = 0xff; break; case 2: o = 0xc0; break; case 3: o = 0x3f; break; case 4: o ^= 0x20; break; case 5: o++; break; case 6: o--; break; case 7: o ^= 0x80; break; }
		w->b[s0->mpos] = o;
	}
}

/* ------------------------------------------------------------------ */
enum { RQ_SHORT, RQ_RESPONSE, RQ_MALFORMED, RQ_WELLFORMED };
static const char *rq_name[] = { "too-short", "response", "malformed", "wellformed" };
struct qref {
	int cls, opcode, nq, has_opt, reserved_label, lenient, any_nul, err; uint16_t id, flags; unsigned opt_size;
	struct { char text[320]; size_t len; int type, class_, has_nul; } q[6];
};
static void ref_request(const uint8_t *msg, size_t len, struct qref *o)
{
	static struct dw_reader rd; struct dw_header h; static struct dw_question qq; static struct dw_rr rr;
	memset(o, 0, offsetof(struct qref, q));
	dw_reader_init(&rd, msg, len);
	if (dw_read_header(&rd, &h)) { o->cls = RQ_SHORT; return; }
	o->id = h.id; o->flags = h.flags; o->opcode = (h.flags >> 11) & 15;
	if (h.flags & DW_F_QR) { o->cls = RQ_RESPONSE; return; }
	o->cls = RQ_MALFORMED;
	for (unsigned i = 0; i < h.qd; i++) {
		int rc = dw_read_question(&rd, &qq);
		if (rc == DW_E_LABEL_TYPE) o->reserved_label = 1;
		if (rc) { o->err = rc; return; }
		if (qq.name.fwd_ptr || qq.name.overlong) o->lenient = 1;
		if (i < 6) { o->q[i].len = dw_name_text(&qq.name, o->q[i].text, sizeof o->q[i].text); o->q[i].type = qq.type; o->q[i].class_ = qq.class_; o->q[i].has_nul = qq.name.has_nul; }
		if (qq.name.has_nul) o->any_nul = 1;
		o->nq++;
	}
	unsigned total = (unsigned)h.an + h.ns + h.ar;
	for (unsigned i = 0; i < total; i++) {
		int rc = dw_read_rr(&rd, &rr);
		if (rc == DW_E_LABEL_TYPE) o->reserved_label = 1;
		/* the server stops reading the additional section at the first OPT record: whatever follows it is not judged */
		if (rc && o->has_opt) { o->lenient = 1; break; }
		if (rc) { o->err = rc; return; }
		if (rr.owner.fwd_ptr || rr.owner.overlong) o->lenient = 1;
		if (i >= (unsigned)h.an + h.ns && rr.type == DW_TYPE_OPT && !o->has_opt) { o->has_opt = 1; o->opt_size = rr.class_; }
	}
	o->cls = RQ_WELLFORMED;
}

/* ------------------------------------------------------------------ */
static char g_ctx[256];
static int g_fill;      /* handler: number of A records to add (OPT-size family) */
static void handler(struct evdns_server_request *req)
{
	if (g_fill) {
		const char *owner = req->nquestions ? req->questions[0]->name : "fill.test";
		for (int i = 0; i < g_fill; i++) { uint8_t a[4] = { 10, 1, (uint8_t)(i >> 8), (uint8_t)i }; evdns_server_request_add_a_reply(req, owner, 1, a, 60); }
	}
	g_slog.respond_rc = evdns_server_request_respond(req, 0);
	if (g_slog.respond_rc < 0) evdns_server_request_drop(req);
}

static void judge_request(const struct spec *s, const uint8_t *msg, size_t len, int full, const struct srv_resp *r, int tcp)
{
	static struct qref R; const struct srv_log *l = &g_slog;
	ref_request(msg, len, &R);
	switch (R.cls) { case RQ_SHORT: MC_COUNT("ref_short"); break; case RQ_RESPONSE: MC_COUNT("ref_response_message"); break; case RQ_MALFORMED: MC_COUNT("ref_malformed"); break; default: if (R.opcode) MC_COUNT("ref_wellformed_nonstandard_opcode"); else MC_COUNT("ref_wellformed_standard_query"); }
	if (l->calls > 1) { mc_fail("C37/callback-more-than-once", "%s: %d callbacks for one message", g_ctx, l->calls); return; }
	if (R.reserved_label) { MC_COUNT("ref_reserved_label_type_unjudged"); return; }
	if (l->calls == 1) {
		MC_COUNT("outcome_callback");
		if (R.cls != RQ_WELLFORMED && R.lenient) { MC_COUNT("ref_lenient_unjudged"); return; }
		if (R.cls != RQ_WELLFORMED) {
			char key[96]; snprintf(key, sizeof key, "C37/callback-for-%s-message", rq_name[R.cls]);
			mc_fail(key, "%s: user callback invoked; reference decoder: %s (%s)", g_ctx, rq_name[R.cls], dw_strerror(R.err));
			return;
		}
		if (R.opcode) { mc_fail("C37/callback-for-nonstandard-opcode", "%s: user callback invoked for opcode %d", g_ctx, R.opcode); return; }
		MC_COUNT("oracle_questions_compared");
		if (l->nq != R.nq) { mc_fail("C37/question-count-differs", "%s: callback saw %d questions, message has %d", g_ctx, l->nq, R.nq); return; }
		for (int i = 0; i < R.nq && i < 6; i++) {
			if (l->q[i].type != R.q[i].type || l->q[i].class_ != R.q[i].class_) { mc_fail("C37/question-differs", "%s: question %d type/class %d/%d, message %d/%d", g_ctx, i, l->q[i].type, l->q[i].class_, R.q[i].type, R.q[i].class_); return; }
			if (l->q[i].nlen != R.q[i].len || memcmp(l->q[i].name, R.q[i].text, R.q[i].len)) {
				if (R.q[i].has_nul && l->q[i].nlen == strlen(R.q[i].text) && !memcmp(l->q[i].name, R.q[i].text, l->q[i].nlen))
					mc_fail("C37/question-name-truncated-at-nul", "%s: question %d delivered as '%s' (%zu of %zu octets)", g_ctx, i, l->q[i].name, l->q[i].nlen, R.q[i].len);
				else mc_fail("C37/question-differs", "%s: question %d name '%s' vs '%s'", g_ctx, i, l->q[i].name, R.q[i].text);
				return;
			}
		}
	} else {
		MC_COUNT("outcome_no_callback");
		if (s->canon && full) mc_fail("C37/wellformed-query-not-delivered", "%s: canonical standard query did not reach the user callback", g_ctx);
		if (R.cls == RQ_WELLFORMED && R.opcode && !R.lenient && !R.any_nul) {
			MC_COUNT("oracle_notimpl_checked");
			if (!r->have) {
				/* keyed apart: a message without any question is dropped before the opcode is looked at (mm_calloc(.., 0) is NULL) */
				mc_fail(R.nq == 0 ? "C37/nonstandard-opcode-not-answered:qdcount=0" : "C37/nonstandard-opcode-not-answered", "%s: opcode %d: no response at all", g_ctx, R.opcode); return;
			}
			if (r->n < 12 || (dw_get_u16(r->b + 2) & 0x800f) != 0x8004) { mc_fail("C37/nonstandard-opcode-not-answered-notimpl", "%s: opcode %d answered with flags %04x", g_ctx, R.opcode, r->n >= 4 ? dw_get_u16(r->b + 2) : 0); return; }
		}
	}
	if (r->have) {
		MC_COUNT("oracle_response_checked");
		if (!tcp && r->n_datagrams > 1) mc_fail("C37/multiple-responses", "%s: %d response datagrams", g_ctx, r->n_datagrams);
		if (r->n < 12) { mc_fail("C37/response-too-short", "%s: %zu octets", g_ctx, r->n); return; }
		if (dw_get_u16(r->b) != R.id) mc_fail("C37/response-id-differs", "%s: id %04x, request %04x", g_ctx, dw_get_u16(r->b), R.id);
		if (!(dw_get_u16(r->b + 2) & DW_F_QR)) mc_fail("C37/response-without-qr", "%s: flags %04x", g_ctx, dw_get_u16(r->b + 2));
		if (!l->calls && !(R.cls == RQ_WELLFORMED && R.opcode) && !R.lenient) mc_fail("C37/response-without-callback", "%s: a %s message was answered (flags %04x) without the user callback", g_ctx, rq_name[R.cls], dw_get_u16(r->b + 2));
	} else if (l->calls && l->respond_rc == 0) mc_fail("C37/response-lost", "%s: evdns_server_request_respond returned 0 but nothing arrived", g_ctx);
	/* OPT size family */
	if (s->kind == K_OPTSIZE && l->calls == 1 && r->have && r->n >= 12) {
		unsigned limit = R.has_opt ? (R.opt_size > 512 ? R.opt_size : 512) : 512; int tc = !!(dw_get_u16(r->b + 2) & DW_F_TC);
		/* 40 A records: at least 12 + 22 + 40*16 = 674 octets however names are compressed, at most 12 + 22 + 40*32 + 11 = 1325 */
		MC_COUNT("oracle_opt_size_checked");
		if (tcp) { if (tc) mc_fail("C37/opt-size/tcp-truncated", "%s: TC over TCP for a %zu-octet response", g_ctx, r->n); }
		else if (limit < 674) {
			if (!tc) mc_fail("C37/opt-size/not-truncated", "%s: limit %u, response %zu octets without TC", g_ctx, limit, r->n);
			if (r->n > limit) mc_fail("C37/opt-size/exceeds-limit", "%s: limit %u, response %zu octets", g_ctx, limit, r->n);
		} else if (limit >= 1325) {
			if (tc || dw_get_u16(r->b + 6) != 40 || r->n < 674) mc_fail("C37/opt-size/truncated-below-limit", "%s: limit %u, response %zu octets tc=%d ancount=%u", g_ctx, limit, r->n, tc, dw_get_u16(r->b + 6));
		}
	}
}

/* Inputs already executed by any worker (see dnspkt_c33.c) */
static uint64_t *g_done; static size_t g_done_cap;
static int done_insert(uint64_t h)
{
	if (!g_done || mc_replaying()) return 1;
	h |= 1;
	size_t i = (size_t)((h * 0x9e3779b97f4a7c15ULL) >> 24) & (g_done_cap - 1);
	for (int n = 0; n < 256; n++, i = (i + 1) & (g_done_cap - 1)) {
		uint64_t v = g_done[i];
		if (v == h) return 0;
		if (v == 0) { if (__sync_bool_compare_and_swap(&g_done[i], 0, h)) return 1; if (g_done[i] == h) return 0; }
	}
	return 1;
}

static long g_item_leaks;
static int ensure_env(int mode)
{
	if (g_srv.port && srv_idle()) return 0;
	if (g_srv.eb) srv_close();
	if (srv_open(mode) < 0) { mc_fail("harness:env", "%s: cannot open the server environment: %s", g_ctx, strerror(errno)); srv_close(); return -1; }
	/* warm-up exchange, then the allocation baseline of the idle port */
	static struct dp_buf v; struct spec canon; memset(&canon, 0, sizeof canon); static struct srv_resp r;
	build_request(&canon, &v); memset(&g_slog, 0, sizeof g_slog); g_fill = 0; g_handler = handler;
	if (mode == SM_TCP) { if (srv_tcp_connect() == 0) { static uint8_t st[1024]; st[0] = (uint8_t)(v.n >> 8); st[1] = (uint8_t)v.n; memcpy(st + 2, v.b, v.n); srv_tcp_feed(st, 0, v.n + 2); srv_tcp_collect(&r, 1); } srv_tcp_disconnect(); }
	else srv_udp_exchange(v.b, v.n, &r, 1);
	g_srv.live0 = mcx_alloc_live();
	MC_COUNT("environments_built");
	return 0;
}

/* plan: cut1/cut2 stream offsets (tcp); pipeline: append a canonical query after the message */
static void run_exec(const struct spec *s, int mode, const struct dp_buf *m, size_t len, size_t cut1, size_t cut2, int pipeline)
{
	static struct srv_resp r;
	{
		uint64_t h = mc_hash_u64(mc_hash_u64(13, (uint64_t)mode * 8 + (uint64_t)pipeline * 4 + (s->kind == K_OPTSIZE)), (uint64_t)cut1 * 70001 + cut2);
		h = mc_hash(h, m->b, len); h = mc_hash_u64(h, len * 2 + (len == m->n && s->canon));
		if (!done_insert(h)) { MC_COUNT("executions_skipped_identical_input"); return; }
	}
	if (ensure_env(mode)) return;
	memset(&g_slog, 0, sizeof g_slog); g_handler = handler; g_fill = s->kind == K_OPTSIZE ? 40 : 0;
	srv_drain_client();
	MC_COUNT("executions");
	int full = len == m->n;
	if (mode != SM_TCP) {
		static struct qref R; ref_request(m->b, len, &R);
		srv_udp_exchange(m->b, len, &r, R.cls == RQ_WELLFORMED);
		judge_request(s, m->b, len, full, &r, 0);
	} else {
		static uint8_t st[70100]; size_t sl = len + 2, at = 0;
		if (srv_tcp_connect()) { mc_fail("harness:tcp-connect", "%s: %s", g_ctx, strerror(errno)); srv_close(); return; }
		st[0] = (uint8_t)(len >> 8); st[1] = (uint8_t)len; memcpy(st + 2, m->b, len);
		if (pipeline) { static struct dp_buf v; struct spec canon; memset(&canon, 0, sizeof canon); build_request(&canon, &v); st[sl] = (uint8_t)(v.n >> 8); st[sl + 1] = (uint8_t)v.n; memcpy(st + sl + 2, v.b, v.n); sl += v.n + 2; }
		size_t cuts[3] = { cut1, cut2, sl };
		for (int i = 0; i < 3; i++) { size_t to = cuts[i] > sl ? sl : cuts[i]; if (to > at) { srv_tcp_feed(st, at, to); at = to; } }
		static struct qref R; ref_request(m->b, len, &R);
		int expect = g_slog.calls + ((R.cls == RQ_WELLFORMED && R.opcode) ? 1 : 0);
		int got = srv_tcp_collect(&r, expect);
		if (!pipeline) {
			if (got > 1) mc_fail("C37/multiple-responses", "%s: %d responses on the stream", g_ctx, got);
			judge_request(s, m->b, len, full, &r, 1);
		} else {
			/* [message][canonical query] on one connection.  A zero length prefix closes the connection
			 * (tcp_read_message); otherwise framing is intact and the second query must be served. */
			MC_COUNT("oracle_pipeline_checked");
			int first_may = R.cls == RQ_WELLFORMED && !R.opcode, dontcare = R.reserved_label || R.lenient;
			if (len > 0 && g_slog.calls < 1) mc_fail("C37/tcp-second-message-lost", "%s: the canonical query following the message on the same connection was not delivered", g_ctx);
			if (g_slog.calls > 2) mc_fail("C37/callback-more-than-once", "%s: %d callbacks for two messages", g_ctx, g_slog.calls);
			if (g_slog.calls == 2 && !first_may && !dontcare) {
				if (R.cls == RQ_WELLFORMED) mc_fail("C37/callback-for-nonstandard-opcode", "%s: user callback invoked for opcode %d", g_ctx, R.opcode);
				else { char key[96]; snprintf(key, sizeof key, "C37/callback-for-%s-message", rq_name[R.cls]); mc_fail(key, "%s: user callback invoked; reference decoder: %s (%s)", g_ctx, rq_name[R.cls], dw_strerror(R.err)); }
			}
			if (len > 0 && first_may && !dontcare && s->canon && g_slog.calls != 2) mc_fail("C37/wellformed-query-not-delivered", "%s: %d callbacks for two canonical queries", g_ctx, g_slog.calls);
		}
		srv_tcp_disconnect();
	}
	MC_COUNT("oracle_leak_checked");
	if (!srv_idle()) { mc_fail("C37/port-not-idle", "%s: refcnt=%d pending=%p clients=%u after the exchange", g_ctx, g_srv.port->refcnt, (void *)g_srv.port->pending_replies, g_srv.port->client_connections_count); srv_close(); return; }
	long leaked = mcx_alloc_live() - g_srv.live0;
	if (leaked) { g_item_leaks += leaked; mc_fail("C37/leak", "%s: %ld allocation(s) still live with the port idle", g_ctx, leaked); g_srv.live0 += leaked; }
}

/* ------------------------------------------------------------------ */
struct item { uint32_t spec; uint8_t mode, plan; };   /* plan 0 full, 1 every prefix, 2 tcp cut set, 3 tcp every cut, 4 tcp pipelined */
static struct spec *specs; static size_t n_specs, cap_specs;
static struct item *items; static size_t n_items, cap_items;
static uint64_t *dd; static size_t dd_cap;
static int dd_add(uint64_t h) { size_t i = (size_t)(h * 0x9e3779b97f4a7c15ULL >> 20) % dd_cap; if (!h) h = 1; while (dd[i]) { if (dd[i] == h) return 0; i = (i + 1) % dd_cap; } dd[i] = h; return 1; }
static long add_spec(const struct spec *s)
{
	static struct dp_buf w; build_request(s, &w);
	if (!dd_add(dp_hash_bytes(s->kind + 1, w.b, w.n))) return -1;
	if (n_specs == cap_specs) { cap_specs = cap_specs ? cap_specs * 2 : 4096; specs = realloc(specs, cap_specs * sizeof *specs); }
	specs[n_specs] = *s; return (long)n_specs++;
}
static void add_item(long spec, int mode, int plan)
{
	if (spec < 0) return;
	if (n_items == cap_items) { cap_items = cap_items ? cap_items * 2 : 4096; items = realloc(items, cap_items * sizeof *items); }
	items[n_items].spec = (uint32_t)spec; items[n_items].mode = (uint8_t)mode; items[n_items].plan = (uint8_t)plan; n_items++;
}
static int is_canon(const struct spec *s)
{
	if (s->n == 16 && s->q == 5) return 0;      /* "sub" + pointer to the 127-label name is longer than 255 octets */
	return s->kind == K_GRAMMAR && (s->h == 0 || s->h == 1 || s->h == 6 || s->h == 7 || s->h == 8) && (s->q == 0 || s->q == 1 || s->q == 2 || s->q == 4 || s->q == 5)
	    && (s->n == 0 || s->n == 1 || s->n == 2 || s->n == 3 || s->n == 6 || s->n == 16) && (s->s == 0 || s->s == 1 || s->s == 2 || s->s == 4 || s->s == 5 || s->s == 6 || s->s == 7 || s->s == 13);
}
static void generate(const char *tier)
{
	int thorough = !strcmp(tier, "thorough"), maxdev = thorough ? 4 : 2;
	dd_cap = 1u << 19; dd = calloc(dd_cap, sizeof *dd);
	struct spec s;
	for (int h = 0; h < N_H; h++) for (int q = 0; q < N_Q; q++) for (int n = 0; n < N_N; n++) for (int t = 0; t < N_S; t++) {
		int dev = (h != 0) + (q != 0) + (n != 0) + (t != 0);
		if (dev > maxdev) continue;
		memset(&s, 0, sizeof s); s.kind = K_GRAMMAR; s.h = (uint8_t)h; s.q = (uint8_t)q; s.n = (uint8_t)n; s.s = (uint8_t)t; s.canon = (uint8_t)is_canon(&s);
		long id = add_spec(&s);
		if (id < 0) continue;
		add_item(id, SM_DIRECT, (q == 7 && (thorough ? dev > 2 : (dev > 1 && n >= 6))) ? 0 : 1);   /* QDCOUNT 65535 costs a 512 KiB calloc per execution: beyond 2 (quick: 1, for long names) deviations only the whole message */
		if (dev <= (thorough ? 3 : 2)) add_item(id, SM_UDP, dev <= (thorough ? 2 : 1) ? 1 : 0);
		if (dev <= (thorough ? 2 : 1)) { add_item(id, SM_TCP, 2); add_item(id, SM_TCP, 4); }
		if (dev <= (thorough ? 1 : 0)) { add_item(id, SM_TCP, 3); add_item(id, SM_TCP, 1); }
		if (thorough && dev <= 1) add_item(id, SM_TCP, 5);                 /* every pair of TCP cuts */
		if (thorough && dev == 3) add_item(id, SM_TCP, 2);
		else if (dev <= 2) add_item(id, SM_TCP, 0);
	}
	/* OPT-size family: canonical question, 40 A records in the answer */
	static const uint8_t optv[] = { 0, 1, 2, 3, 4, 5, 10, 12 };
	for (size_t i = 0; i < sizeof optv; i++) {
		memset(&s, 0, sizeof s); s.kind = K_OPTSIZE; s.s = optv[i];
		long id = add_spec(&s);
		add_item(id, SM_DIRECT, 0); add_item(id, SM_UDP, 0); add_item(id, SM_TCP, 0);
	}
	/* mutated captures: two questions (second compressed) + A RR + OPT */
	static struct dp_buf w; memset(&s, 0, sizeof s); s.kind = K_MUTANT; build_request(&s, &w); s.mpos = 0xffff;
	size_t L = w.n;
	for (size_t p = 0; p < L; p++) for (int v = 0; v < 8; v++) {
		s.mpos = (uint16_t)p; s.mval = (uint8_t)v;
		long id = add_spec(&s);
		add_item(id, SM_DIRECT, thorough ? 1 : 0);
		if (thorough) { add_item(id, SM_UDP, 0); add_item(id, SM_TCP, 0); }
	}
	free(dd); dd = NULL;
}

static void item_fn(uint64_t idx)
{
	static const char *mn[3] = { "direct", "udp", "tcp" };
	const struct item *it = &items[idx]; const struct spec *s = &specs[it->spec];
	static struct dp_buf w; char d[128];
	uint64_t fd0 = mcx_fd_signature(); long live_item0 = mcx_alloc_live(); g_item_leaks = 0;
	build_request(s, &w);
	if (s->kind == K_MUTANT) snprintf(d, sizeof d, "%s mutant@%u:%u", mn[it->mode], s->mpos, s->mval);
	else snprintf(d, sizeof d, "%s %sh%u q%u n%u s%u", mn[it->mode], s->kind == K_OPTSIZE ? "optsize " : "", s->h, s->q, s->n, s->s);
	vclock_reset();
	size_t sl = w.n + 2;
	switch (it->plan) {
	case 0: snprintf(g_ctx, sizeof g_ctx, "%s len=%zu", d, w.n); run_exec(s, it->mode, &w, w.n, 0, 0, 0); break;
	case 1: for (size_t L = 0; L <= w.n; L++) { snprintf(g_ctx, sizeof g_ctx, "%s prefix=%zu/%zu", d, L, w.n); run_exec(s, it->mode, &w, L, 0, 0, 0); } MC_COUNT("items_all_prefixes"); break;
	case 2: { size_t cs[][2] = { {1, 0}, {2, 0}, {3, 0}, {sl / 2, 0}, {sl - 1, 0}, {1, 2}, {2, sl - 1}, {1, sl / 2}, {13, 14} };
		for (size_t i = 0; i < sizeof cs / sizeof cs[0]; i++) { snprintf(g_ctx, sizeof g_ctx, "%s cuts=%zu,%zu len=%zu", d, cs[i][0], cs[i][1], w.n); run_exec(s, it->mode, &w, w.n, cs[i][0], cs[i][1], 0); } break; }
	case 3: for (size_t cut = 1; cut < sl; cut++) { snprintf(g_ctx, sizeof g_ctx, "%s cut=%zu len=%zu", d, cut, w.n); run_exec(s, it->mode, &w, w.n, cut, 0, 0); } break;
	case 5: for (size_t step = sl / 120 + 1, c1 = 1; c1 < sl - 1; c1 += step) for (size_t c2 = c1 + 1; c2 < sl; c2 += step) { snprintf(g_ctx, sizeof g_ctx, "%s cuts=%zu,%zu len=%zu", d, c1, c2, w.n); run_exec(s, it->mode, &w, w.n, c1, c2, 0); } MC_COUNT("items_all_tcp_cut_pairs"); break;
	case 4: snprintf(g_ctx, sizeof g_ctx, "%s pipelined len=%zu", d, w.n); run_exec(s, it->mode, &w, w.n, 0, 0, 1);
		snprintf(g_ctx, sizeof g_ctx, "%s pipelined cut=%zu len=%zu", d, sl + 1, w.n); run_exec(s, it->mode, &w, w.n, sl + 1, 0, 1);
		snprintf(g_ctx, sizeof g_ctx, "%s pipelined cut=%zu len=%zu", d, sl - 1, w.n); run_exec(s, it->mode, &w, w.n, sl - 1, sl + 2, 1); break;
	}
	uint64_t h = mc_hash_u64(5, (uint64_t)g_slog.calls * 31 + (uint64_t)g_slog.nq);
	for (int i = 0; i < g_slog.nq && i < 6; i++) { h = mc_hash(h, g_slog.q[i].name, g_slog.q[i].nlen); h = mc_hash_u64(h, (uint64_t)g_slog.q[i].type * 65536 + (uint64_t)g_slog.q[i].class_); }
	mc_nontrivial(h);
	mc_observe("%s len=%zu -> %d callback(s) nq=%d q0='%s' %d/%d", d, w.n, g_slog.calls, g_slog.nq, g_slog.nq ? g_slog.q[0].name : "", g_slog.nq ? g_slog.q[0].type : 0, g_slog.nq ? g_slog.q[0].class_ : 0);
	if (g_srv.eb) srv_close();
	if (mcx_alloc_live() != live_item0 + g_item_leaks) mc_fail("C37/leak/item", "%s: %ld allocation(s) live after the port and the event_base were freed", d, mcx_alloc_live() - live_item0 - g_item_leaks);
	if (mcx_fd_signature() != fd0) mc_fail("C37/fdleak", "%s: fd table differs after the item", d);
}

static void init(void)
{
	if (!dp_alloc_trace_install()) mcx_alloc_install();
	event_set_log_callback(dp_quiet_log);
	for (int mode = SM_UDP; mode <= SM_TCP; mode++) { snprintf(g_ctx, sizeof g_ctx, "init"); ensure_env(mode); srv_close(); }
}

int main(int argc, char **argv)
{
	generate(dp_argv_param(argc, argv, "tier", "quick"));
	g_done_cap = (size_t)1 << 26;
	g_done = mmap(NULL, g_done_cap * sizeof *g_done, PROT_READ | PROT_WRITE, MAP_SHARED | MAP_ANONYMOUS | MAP_NORESERVE, -1, 0);
	if (g_done == MAP_FAILED) g_done = NULL;
	struct mc_config cfg = { .property = "C37", .n_items = n_items, .item = item_fn, .init = init };
	return mc_main(argc, argv, &cfg);
}
