/* C28 — parsed URIs reassemble into URIs with identical components.
 *
 * Shard-mode enumeration over the real evhttp_uri_parse_with_flags /
 * evhttp_uri_join / evhttp_uri_set_* of http.c.  Three domains (-P dom=...):
 *
 *   str   every string of length <= len over {a 1 : / ? # @ [ ] % . -}
 *         (item index = length class + base-12 number), all 8 flag sets
 *   gram  cross product scheme x (userinfo x host x port | no authority) x
 *         path x query x fragment from the catalogues below, all 8 flag sets
 *   set   URIs built with the setters from catalogues of candidate values
 *         (accepted and rejected ones), all 8 flag sets
 *
 * Oracles (str, gram), for every (string, flags) the parser accepts:
 *   1. evhttp_uri_join succeeds,
 *   2. the joined string parses with the same flags,
 *   3. into identical scheme/userinfo/host/unixsocket/port/path/query/fragment
 *      (NULL and "" are different),
 *   4. the components equal those of ref_split(): an independent splitter
 *      written from RFC 3986 appendix B + section 3.2, with the documented
 *      transformations (HOST_STRIP_BRACKETS, "unix:" authority, nil port = -1).
 * Oracle (set): if join does not refuse, the joined string must parse with the
 *   same flags into the components the getters reported before the join.
 * Hygiene: no library allocation outlives an item.
 */
#include "mcx.h"
#include <event2/event.h>
#include <event2/http.h>
#include <event2/buffer.h>
#include <stdio.h>
#include <stdlib.h>
#include <string.h>

/* ------------------------------------------------------------------ */
enum { C_SCHEME, C_USERINFO, C_HOST, C_UNIX, C_PATH, C_QUERY, C_FRAG, C_PORT, NCOMP };
static const char *cname[NCOMP] = { "scheme", "userinfo", "host", "unixsocket", "path", "query", "fragment", "port" };
#define BIT(c) (1u << (c))

struct comps { const char *s[C_PORT]; int port; };

static const unsigned FLAGSETS[8] = {
	0,
	EVHTTP_URI_NONCONFORMANT,
	EVHTTP_URI_HOST_STRIP_BRACKETS,
	EVHTTP_URI_NONCONFORMANT | EVHTTP_URI_HOST_STRIP_BRACKETS,
	EVHTTP_URI_UNIX_SOCKET,
	EVHTTP_URI_UNIX_SOCKET | EVHTTP_URI_NONCONFORMANT,
	EVHTTP_URI_UNIX_SOCKET | EVHTTP_URI_HOST_STRIP_BRACKETS,
	EVHTTP_URI_UNIX_SOCKET | EVHTTP_URI_NONCONFORMANT | EVHTTP_URI_HOST_STRIP_BRACKETS,
};

static void get_comps(const struct evhttp_uri *u, struct comps *c)
{
	c->s[C_SCHEME] = evhttp_uri_get_scheme(u);
	c->s[C_USERINFO] = evhttp_uri_get_userinfo(u);
	c->s[C_HOST] = evhttp_uri_get_host(u);
	c->s[C_UNIX] = evhttp_uri_get_unixsocket(u);
	c->s[C_PATH] = evhttp_uri_get_path(u);
	c->s[C_QUERY] = evhttp_uri_get_query(u);
	c->s[C_FRAG] = evhttp_uri_get_fragment(u);
	c->port = evhttp_uri_get_port(u);
}

static int same_str(const char *a, const char *b)
{
	if (!a || !b) return a == b;
	return !strcmp(a, b);
}

/* bit mask of the components in which a and b differ */
static unsigned diff_comps(const struct comps *a, const struct comps *b)
{
	unsigned m = 0;
	for (int i = 0; i < C_PORT; i++)
		if (!same_str(a->s[i], b->s[i])) m |= BIT(i);
	if (a->port != b->port) m |= BIT(C_PORT);
	return m;
}

static int first_bit(unsigned m) { for (int i = 0; i < NCOMP; i++) if (m & BIT(i)) return i; return 0; }

/* printable rendering for messages */
static const char *vis(const char *s)
{
	static char bufs[32][200]; static int k;
	char *b = bufs[k++ % 32]; size_t o = 0;
	if (!s) return "(null)";
	b[o++] = '"';
	for (; *s && o < 190; s++) {
		unsigned char c = (unsigned char)*s;
		if (c < 0x20 || c >= 0x7f || c == '"' || c == '\\') o += snprintf(b + o, 8, "\\x%02x", c);
		else b[o++] = (char)c;
	}
	b[o++] = '"'; b[o] = 0;
	return b;
}

static const char *vis_comps(const struct comps *c)
{
	static char b[2][900]; static int k;
	char *o = b[k++ & 1];
	snprintf(o, 900, "scheme=%s userinfo=%s host=%s unix=%s port=%d path=%s query=%s fragment=%s",
	    vis(c->s[C_SCHEME]), vis(c->s[C_USERINFO]), vis(c->s[C_HOST]), vis(c->s[C_UNIX]), c->port,
	    vis(c->s[C_PATH]), vis(c->s[C_QUERY]), vis(c->s[C_FRAG]));
	return o;
}

/* ------------------------------------------------------------------ */
/* Reference splitter: RFC 3986 appendix B
 *    ^(([^:/?#]+):)?(//([^/?#]*))?([^?#]*)(\?([^#]*))?(#(.*))?
 * then section 3.2  authority = [ userinfo "@" ] host [ ":" port ],
 * host = IP-literal ("[" ... "]") / IPv4address / reg-name (neither of the
 * last two contains ':'),  port = *DIGIT.
 * Documented transformations of libevent (include/event2/http.h):
 *   - "If no port is specified, the port is set to -1"; a nil port ("h:") is
 *     likewise unspecified.
 *   - EVHTTP_URI_HOST_STRIP_BRACKETS: get_host() returns an IP-literal
 *     without its brackets.
 *   - EVHTTP_URI_UNIX_SOCKET: "http://unix:/run/control.sock:/controller":
 *     after the optional userinfo the authority is "unix:" socket-path ":",
 *     where the socket path runs up to the next ':' (it may contain '/');
 *     what follows that ':' is the path/query/fragment.  Host stays unset.
 */
#define RMAX 160
struct refc {
	char buf[C_PORT][RMAX];
	struct comps c;
	int authority_ok;   /* authority could be split by the 3.2 grammar */
	int unix_form;      /* the unix: transformation applied */
	const char *unix_rest; /* unix_form: text after the ':' that ends the socket path */
};

static const char *put(struct refc *r, int which, const char *p, size_t n)
{
	if (n >= RMAX) n = RMAX - 1;
	memcpy(r->buf[which], p, n); r->buf[which][n] = 0;
	return r->c.s[which] = r->buf[which];
}

static int all_digits(const char *p, const char *e) { for (; p < e; p++) if (*p < '0' || *p > '9') return 0; return 1; }

static void ref_split(const char *s, unsigned flags, struct refc *r)
{
	const char *p = s, *q;
	memset(&r->c, 0, sizeof r->c);
	r->c.port = -1; r->authority_ok = 1; r->unix_form = 0;
	/* (([^:/?#]+):)? */
	q = p + strcspn(p, ":/?#");
	if (q > p && *q == ':') { put(r, C_SCHEME, p, (size_t)(q - p)); p = q + 1; }
	/* (//([^/?#]*))? */
	if (p[0] == '/' && p[1] == '/') {
		const char *a = p + 2, *ae = a + strcspn(a, "/?#"), *at = NULL, *h;
		for (q = a; q < ae; q++) if (*q == '@') at = q;
		h = at ? at + 1 : a;
		if (at) put(r, C_USERINFO, a, (size_t)(at - a));
		if ((flags & EVHTTP_URI_UNIX_SOCKET) && !strncmp(h, "unix:", 5) && strchr(h + 5, ':')) {
			const char *e = strchr(h + 5, ':');
			r->unix_form = 1;
			put(r, C_UNIX, h + 5, (size_t)(e - (h + 5)));
			p = r->unix_rest = e + 1;
		} else {
			const char *he, *rest;
			if (*h == '[') {
				he = memchr(h, ']', (size_t)(ae - h));
				if (!he) { r->authority_ok = 0; he = ae; } else he++;
			} else {
				he = memchr(h, ':', (size_t)(ae - h));
				if (!he) he = ae;
			}
			rest = he;
			if (rest < ae) {
				if (*rest != ':' || !all_digits(rest + 1, ae)) r->authority_ok = 0;
				else if (rest + 1 < ae) {
					long v = 0;
					for (q = rest + 1; q < ae; q++) { v = v * 10 + (*q - '0'); if (v > 1000000000L) v = 1000000000L; }
					r->c.port = (int)v;
				}
			}
			if (*h == '[' && (flags & EVHTTP_URI_HOST_STRIP_BRACKETS) && he - h >= 2 && he[-1] == ']')
				put(r, C_HOST, h + 1, (size_t)(he - h - 2));
			else
				put(r, C_HOST, h, (size_t)(he - h));
			p = ae;
		}
	}
	/* ([^?#]*) */
	q = p + strcspn(p, "?#");
	put(r, C_PATH, p, (size_t)(q - p));
	p = q;
	/* (\?([^#]*))? */
	if (*p == '?') { q = p + 1 + strcspn(p + 1, "#"); put(r, C_QUERY, p + 1, (size_t)(q - p - 1)); p = q; }
	/* (#(.*))? */
	if (*p == '#') put(r, C_FRAG, p + 1, strlen(p + 1));
}

/* Signature of one specific parser defect (kept as a known finding): with
 * EVHTTP_URI_UNIX_SOCKET and a socket path that contains '/', '?' or '#', the
 * parser ends the authority at that character, so path/query/fragment are
 * read from *inside the socket path* (up to the ':' that terminates it, which
 * it overwrites with NUL) and the real rest of the URI is dropped.  True iff
 * `got` carries exactly that: path/query/fragment = appendix-B split of the
 * socket text from its first [/?#]. */
static int split_equals(const char *t, const struct comps *got)
{
	const char *q;
	char path[RMAX], query[RMAX], frag[RMAX];
	const char *eq = NULL, *ef = NULL;
	if (!t) t = "";
	if (strlen(t) >= RMAX) return 0;
	q = t + strcspn(t, "?#");
	snprintf(path, sizeof path, "%.*s", (int)(q - t), t);
	if (*q == '?') { const char *e = q + 1 + strcspn(q + 1, "#"); snprintf(query, sizeof query, "%.*s", (int)(e - q - 1), q + 1); eq = query; q = e; }
	if (*q == '#') { snprintf(frag, sizeof frag, "%s", q + 1); ef = frag; }
	return same_str(got->s[C_PATH], path) && same_str(got->s[C_QUERY], eq) && same_str(got->s[C_FRAG], ef);
}
static int rest_parsed_from_socket_path(const char *sock, const struct comps *got)
{
	const char *t;
	if (!sock || !(t = strpbrk(sock, "/?#"))) return 0;
	return split_equals(t, got);
}
/* Second face of the same defect: the socket path has no [/?#], so the authority
 * ends at the first [/?#] *after* the socket's ':' and whatever stands between
 * the two is silently ignored ("//unix:s:junk/p" parses like "//unix:s:/p"). */
static int text_after_socket_ignored(const char *sock, const char *rest, const struct comps *got)
{
	if (!sock || !rest || strpbrk(sock, "/?#")) return 0;
	if (!*rest || strchr("/?#", *rest)) return 0;   /* nothing stands in between */
	return split_equals(strpbrk(rest, "/?#"), got);
}

/* ------------------------------------------------------------------ */
/* ASan's default 256 MB free-quarantine makes every allocation touch fresh
 * pages (20-100x slower here); a small quarantine still traps use-after-free of
 * recently freed blocks, which is all a single parse/join can produce.
 * ASAN_OPTIONS from ./check only adds to these defaults. */
const char *__asan_default_options(void);
const char *__asan_default_options(void) { return "quarantine_size_mb=2:thread_local_quarantine_size_kb=64"; }

static long live0;
static void quiet(int sev, const char *msg) { (void)sev; (void)msg; }
static void init(void) { mcx_alloc_install(); event_set_log_callback(quiet); }

/* Check one (string, flags): returns 1 if the parser accepted it. */
static int check_parsed(const char *s, unsigned fl)
{
	static char joined[4096];
	struct comps c1, c2;
	struct refc ref;
	unsigned m;
	struct evhttp_uri *u = evhttp_uri_parse_with_flags(s, fl), *u2 = NULL;
	MC_COUNT("parse_calls");
	if (!u) return 0;
	MC_COUNT("parse_accepted");
	get_comps(u, &c1);
	if (c1.s[C_UNIX]) MC_COUNT("accepted_with_unixsocket");
	if (c1.s[C_HOST] && (fl & EVHTTP_URI_HOST_STRIP_BRACKETS) && strchr(c1.s[C_HOST], ':')) MC_COUNT("accepted_with_stripped_brackets");
	if (mc_replaying()) printf("  flags=%#x parsed: %s\n", fl, vis_comps(&c1));

	/* 4. RFC 3986 components */
	ref_split(s, fl, &ref);
	MC_COUNT("oracle_rfc_split_compared");
	if (mc_replaying()) printf("  flags=%#x rfc   : %s%s\n", fl, vis_comps(&ref.c), ref.authority_ok ? "" : " (authority not splittable)");
	if (!ref.authority_ok)
		mc_fail("C28/rfc-split/accepted-unsplittable-authority", "input %s flags=%#x accepted, but its authority is not [userinfo@]host[:port]; parsed %s", vis(s), fl, vis_comps(&c1));
	else if ((m = diff_comps(&c1, &ref.c)) != 0) {
		char key[96];
		if (ref.unix_form && !(m & ~(BIT(C_PATH) | BIT(C_QUERY) | BIT(C_FRAG))) && rest_parsed_from_socket_path(ref.c.s[C_UNIX], &c1))
			snprintf(key, sizeof key, "C28/rfc-split/unix-authority/rest-parsed-from-socket-path");
		else if (ref.unix_form && !(m & ~(BIT(C_PATH) | BIT(C_QUERY) | BIT(C_FRAG))) && text_after_socket_ignored(ref.c.s[C_UNIX], ref.unix_rest, &c1))
			snprintf(key, sizeof key, "C28/rfc-split/unix-authority/text-after-socket-ignored");
		else
		snprintf(key, sizeof key, "C28/rfc-split/%s%s", ref.unix_form ? "unix-authority/" : "", cname[first_bit(m)]);
		mc_fail(key, "input %s flags=%#x: parsed %s but RFC 3986 components are %s", vis(s), fl, vis_comps(&c1), vis_comps(&ref.c));
	}

	/* 1. join succeeds */
	MC_COUNT("oracle_join_attempted");
	if (!evhttp_uri_join(u, joined, sizeof joined)) {
		mc_fail("C28/join-refuses-parsed-uri", "input %s flags=%#x parsed (%s) but join returned NULL", vis(s), fl, vis_comps(&c1));
		goto out;
	}
	if (mc_replaying()) printf("  flags=%#x joined: %s\n", fl, vis(joined));
	/* 2. joined string parses with the same flags */
	u2 = evhttp_uri_parse_with_flags(joined, fl);
	MC_COUNT("oracle_reparse_attempted");
	if (!u2) {
		mc_fail("C28/joined-does-not-reparse", "input %s flags=%#x joined to %s which is rejected", vis(s), fl, vis(joined));
		goto out;
	}
	/* 3. identical components */
	get_comps(u2, &c2);
	MC_COUNT("oracle_roundtrip_compared");
	if ((m = diff_comps(&c1, &c2)) != 0) {
		char key[96];
		snprintf(key, sizeof key, "C28/roundtrip-differs/%s", cname[first_bit(m)]);
		mc_fail(key, "input %s flags=%#x: parsed %s; joined %s re-parses to %s", vis(s), fl, vis_comps(&c1), vis(joined), vis_comps(&c2));
	}
	if (strcmp(joined, s)) MC_COUNT("joined_differs_from_input");
out:
	if (u2) evhttp_uri_free(u2);
	evhttp_uri_free(u);
	return 1;
}

static void check_string_all_flags(const char *s, uint64_t id)
{
	int acc = 0;
	live0 = mcx_alloc_live();
	if (mc_replaying()) printf("INPUT %s\n", vis(s));
	for (int f = 0; f < 8; f++)
		if (check_parsed(s, FLAGSETS[f])) acc |= 1 << f;
	if (acc) { MC_COUNT("nontrivial_inputs"); mc_nontrivial(mc_hash_u64(0x28, id)); }
	else MC_COUNT("inputs_rejected_under_all_flags");
	if (mcx_alloc_live() != live0)
		mc_fail("C28/leak/parse-join", "input %s: %ld library allocations left", vis(s), mcx_alloc_live() - live0);
	if (mc_replaying() || (id & 0xfff) == 1) mc_observe("%s accepted-under-flagsets=%#x", vis(s), acc);
}

/* ---------------- domain str ---------------- */
static const char *ALPHA = "a1:/?#@[]%.-";   /* -P alpha=... replaces it */
static int NALPHA = 12;
static int str_exact;                 /* -P exact=1: only strings of length == len */
static int str_maxlen = 5;
static const char *str_prefix = "";   /* -P prefix=...: every enumerated string is appended to it */

static uint64_t count_strings(int base, int maxlen)
{
	uint64_t n = 0, p = 1;
	for (int k = 0; k <= maxlen; k++) { n += p; p *= (uint64_t)base; }
	return n;
}

static void item_str(uint64_t i)
{
	char buf[48], *s; uint64_t idx = i, cnt = 1; int k = 0;
	size_t pl = strlen(str_prefix);
	memcpy(buf, str_prefix, pl); s = buf + pl;
	if (str_exact) k = str_maxlen;
	else while (idx >= cnt) { idx -= cnt; cnt *= (uint64_t)NALPHA; k++; }
	for (int j = k - 1; j >= 0; j--) { s[j] = ALPHA[idx % NALPHA]; idx /= NALPHA; }
	s[k] = 0;
	check_string_all_flags(buf, i);
}

/* ---------------- domain gram ---------------- */
static const char *G_SCHEME[] = { "", "http:", "a+.-1:", "1a:", ":" };
static const char *G_USER[] = { NULL, "", "u", "u:p", "%41!$", "%4g", "\xfc" };
static const char *G_HOST[] = {
	"", "h", "a.b-c_~", "1.2.3.4", "%41", "%4", "h!$&'()*+,;=", "h x", "h\xe9",
	"[::1]", "[1:2::3]", "[::ffff:1.2.3.4]", "[v1.a]", "[vF.a:b]", "[::1", "[v1]", "[]", "[::1]x", "[1.2.3.4]",
	"unix:/s:", "unix:s:", "unix::", "unix:", "unix:/a/b.sock:", "unix", "xunix:/s:",
};
static const char *G_PORT[] = { "", ":", ":0", ":80", ":65535", ":65536", ":08", ":8x" };
/* the first Q_* entries of these three form the smaller quick-tier product (-P gsub=1) */
static const char *G_PATH[] = { "", "/", "/p", "p", "//x", "p:q", "/a b", "/%4", "/a//b", "/\xe9\x01", "/a/b", "p/q", "./p:q", "/%41", "/p[]" };
static const char *G_QUERY[] = { NULL, "", "q", "a b", "%", "a=b&c=d", "q?r/", "%41" };
static const char *G_FRAG[] = { NULL, "", "f#g", "a b", "f", "f?/", "%4" };
#define Q_PATH 10
#define Q_QUERY 5
#define Q_FRAG 4
static int n_path, n_query, n_frag;
#define N(a) ((int)(sizeof(a) / sizeof((a)[0])))
#define G_NAUTH (1 + N(G_USER) * N(G_HOST) * N(G_PORT))

static uint64_t gram_count(void)
{
	return (uint64_t)N(G_SCHEME) * G_NAUTH * n_path * n_query * n_frag;
}

static void item_gram(uint64_t i)
{
	char s[256]; uint64_t x = i; size_t o = 0;
	int fr = (int)(x % n_frag); x /= n_frag;
	int qu = (int)(x % n_query); x /= n_query;
	int pa = (int)(x % n_path); x /= n_path;
	int au = (int)(x % G_NAUTH); x /= G_NAUTH;
	int sc = (int)x;
	o += (size_t)snprintf(s + o, sizeof s - o, "%s", G_SCHEME[sc]);
	if (au) {
		int a = au - 1;
		int po = a % N(G_PORT); a /= N(G_PORT);
		int ho = a % N(G_HOST); a /= N(G_HOST);
		int us = a;
		o += (size_t)snprintf(s + o, sizeof s - o, "//");
		if (G_USER[us]) o += (size_t)snprintf(s + o, sizeof s - o, "%s@", G_USER[us]);
		o += (size_t)snprintf(s + o, sizeof s - o, "%s%s", G_HOST[ho], G_PORT[po]);
	}
	o += (size_t)snprintf(s + o, sizeof s - o, "%s", G_PATH[pa]);
	if (G_QUERY[qu]) o += (size_t)snprintf(s + o, sizeof s - o, "?%s", G_QUERY[qu]);
	if (G_FRAG[fr]) o += (size_t)snprintf(s + o, sizeof s - o, "#%s", G_FRAG[fr]);
	check_string_all_flags(s, i);
}

/* ---------------- domain set ---------------- */
/* Candidate values handed to the setters; the setters decide which ones they
 * accept.  "\1" stands for "setter not called" (component stays unset). */
#define UNSET "\1"
static const char *S_SCHEME[] = { UNSET, "http", "1a" };
static const char *S_USER[] = { UNSET, "", "u:p", "u@x" };
/* "X>Y": evhttp_uri_set_host(X) followed by evhttp_uri_set_host(Y); Y = "~" clears with NULL */
static const char *S_HOST[] = { UNSET, "", "h", "1", "[::1]", "[v1.a]", "a:1", "a/b", "[::1", "[::1]>h", "h>[::1]", "[::1]>~" };
static const char *S_UNIX[] = { UNSET, "/s", "", "a:b" };
static const int S_PORT[] = { -1, 0, 80, 65535, 65536, -2 };
static const char *S_PATH[] = { UNSET, "", "/", "/p", "p", "//x", "a:b", "./a:b", "/p?q", "/a b" };
static const char *S_QUERY[] = { UNSET, "", "q=1", "a?b", "q#f", "a b" };
static const char *S_FRAG[] = { UNSET, "", "f", "f#g", "a b" };

static uint64_t set_count(void)
{
	return 8ull * N(S_SCHEME) * N(S_USER) * N(S_HOST) * N(S_UNIX) * N(S_PORT) * N(S_PATH) * N(S_QUERY) * N(S_FRAG);
}

static int first_segment_has_colon(const char *p)
{
	for (; *p && *p != '/'; p++) if (*p == ':') return 1;
	return 0;
}

struct cause { const char *name; int active; unsigned explains; int explains_failure; };

/* Common oracle of the setter domains: the built URI u (flags fl) must either be
 * refused by join or join into a string that parses with fl into the values the
 * getters report now.  Frees u. */
static void judge_built(struct evhttp_uri *u, unsigned fl, uint64_t i, unsigned accepted)
{
	static char joined[4096];
	struct comps b, c2; unsigned m;
	struct evhttp_uri *u2 = NULL;
	memset(&c2, 0, sizeof c2);
	get_comps(u, &b);
	if (mc_replaying()) printf("  accepted-mask=%#x built: %s\n", accepted, vis_comps(&b));
	/* A unix socket can only come out of a parse with EVHTTP_URI_UNIX_SOCKET, so
	 * "parses with the same flags" is only meaningful for it with that flag. */
	if (b.s[C_UNIX] && !(fl & EVHTTP_URI_UNIX_SOCKET)) { MC_COUNT("set_skipped_unixsocket_without_flag"); goto out; }

	MC_COUNT("oracle_set_join_attempted");
	if (!evhttp_uri_join(u, joined, sizeof joined)) {
		MC_COUNT("set_join_refused");
		if (mc_replaying()) printf("  join refused\n");
		goto out;
	}
	MC_COUNT("nontrivial_inputs"); mc_nontrivial(mc_hash_u64(0x2828, i));
	if (mc_replaying()) printf("  joined: %s\n", vis(joined));
	u2 = evhttp_uri_parse_with_flags(joined, fl);
	MC_COUNT("oracle_set_reparse_attempted");
	if (u2) {
		struct comps bb = b;
		get_comps(u2, &c2);
		/* an unset path and an empty path are the same RFC 3986 component */
		if (!bb.s[C_PATH]) bb.s[C_PATH] = "";
		m = diff_comps(&bb, &c2);
		MC_COUNT("oracle_set_roundtrip_compared");
		if (mc_replaying()) printf("  re-parsed: %s\n", vis_comps(&c2));
	} else {
		m = 0;
		if (mc_replaying()) printf("  re-parse: rejected\n");
	}
	if (u2 && !m) MC_COUNT("set_roundtrip_identical");
	if (!u2 || m) {
		/* Classify by what about the built URI makes it unrepresentable, so
		 * that each such class is one finding and anything unexplained gets
		 * its own key. */
		int auth = b.s[C_HOST] || b.s[C_UNIX];
		const char *path = b.s[C_PATH] ? b.s[C_PATH] : "";
		struct cause causes[] = {
			{ "port-without-host", b.port >= 0 && !auth, BIT(C_PORT), 0 },
			{ "userinfo-without-host", b.s[C_USERINFO] && !auth, BIT(C_USERINFO), 0 },
			{ "port-dropped-with-unixsocket", b.s[C_UNIX] && b.port >= 0, BIT(C_PORT), 0 },
			{ "host-dropped-with-unixsocket", b.s[C_UNIX] && b.s[C_HOST], BIT(C_HOST), 0 },
			{ "unix-rest-parsed-from-socket-path", u2 && b.s[C_UNIX] && same_str(b.s[C_UNIX], c2.s[C_UNIX]) && rest_parsed_from_socket_path(b.s[C_UNIX], &c2),
			  BIT(C_PATH) | BIT(C_QUERY) | BIT(C_FRAG), 0 },
			{ "relative-path-with-unixsocket", b.s[C_UNIX] && path[0] && path[0] != '/', BIT(C_PATH), 1 },
			{ "unixsocket-with-colon", b.s[C_UNIX] && strchr(b.s[C_UNIX], ':'), BIT(C_UNIX) | BIT(C_PATH) | BIT(C_QUERY) | BIT(C_FRAG), 1 },
			{ "path-double-slash-without-authority", !auth && path[0] == '/' && path[1] == '/',
			  BIT(C_USERINFO) | BIT(C_HOST) | BIT(C_UNIX) | BIT(C_PORT) | BIT(C_PATH), 1 },
			{ "path-colon-in-first-segment-without-scheme", !auth && !b.s[C_SCHEME] && first_segment_has_colon(path),
			  BIT(C_SCHEME) | BIT(C_PATH), 1 },
			{ "port-above-65535", b.s[C_HOST] && !b.s[C_UNIX] && b.port > 65535, 0, 1 },
		};
		unsigned left = m; int explained_failure = 0;
		char key[128];
		for (int k = 0; k < N(causes); k++) {
			struct cause *c = &causes[k];
			if (!c->active) continue;
			if ((u2 && (m & c->explains)) || (!u2 && c->explains_failure)) {
				/* these classes hit hundreds of thousands of items: report the
				 * first ones of each worker in full, count the rest */
				static unsigned hits[16];
				MC_COUNT("set_unrepresentable_class_hits");
				left &= ~c->explains;
				if (!u2) explained_failure = 1;
				if (hits[k]++ >= 32 && !mc_replaying()) continue;
				snprintf(key, sizeof key, "C28/setters/%s", c->name);
				mc_fail(key, "flags=%#x built %s; join gave %s which %s%s", fl, vis_comps(&b), vis(joined),
				    u2 ? "re-parses to " : "is rejected", u2 ? vis_comps(&c2) : "");
			}
		}
		if (!u2 && !explained_failure)
			mc_fail("C28/setters/joined-does-not-reparse", "flags=%#x built %s; join gave %s which is rejected", fl, vis_comps(&b), vis(joined));
		if (u2 && left) {
			snprintf(key, sizeof key, "C28/setters/roundtrip-differs/%s", cname[first_bit(left)]);
			mc_fail(key, "flags=%#x built %s; join gave %s which re-parses to %s", fl, vis_comps(&b), vis(joined), vis_comps(&c2));
		}
	}
out:
	if (u2) evhttp_uri_free(u2);
	evhttp_uri_free(u);
	if (mcx_alloc_live() != live0)
		mc_fail("C28/leak/setters-join", "item %llu: %ld library allocations left", (unsigned long long)i, mcx_alloc_live() - live0);
	if (mc_replaying() || (i & 0xfff) == 1) mc_observe("set-item %llu flags=%#x accepted=%#x", (unsigned long long)i, fl, accepted);
}

static void item_set(uint64_t i)
{
	uint64_t x = i;
	int fr = (int)(x % N(S_FRAG)); x /= N(S_FRAG);
	int qu = (int)(x % N(S_QUERY)); x /= N(S_QUERY);
	int pa = (int)(x % N(S_PATH)); x /= N(S_PATH);
	int po = (int)(x % N(S_PORT)); x /= N(S_PORT);
	int un = (int)(x % N(S_UNIX)); x /= N(S_UNIX);
	int ho = (int)(x % N(S_HOST)); x /= N(S_HOST);
	int us = (int)(x % N(S_USER)); x /= N(S_USER);
	int sc = (int)(x % N(S_SCHEME)); x /= N(S_SCHEME);
	unsigned fl = FLAGSETS[x];
	unsigned accepted = 0;
	struct evhttp_uri *u;

	/* A unix socket can only come out of a parse with EVHTTP_URI_UNIX_SOCKET, so
	 * "parses with the same flags" is only meaningful for it with that flag. */
	if (strcmp(S_UNIX[un], UNSET) && !(fl & EVHTTP_URI_UNIX_SOCKET)) { MC_COUNT("set_skipped_unixsocket_without_flag"); return; }

	live0 = mcx_alloc_live();
	u = evhttp_uri_new();
	if (!u) { mc_fail("harness:uri_new", "evhttp_uri_new failed"); return; }
	evhttp_uri_set_flags(u, fl);
#define SET(fn, v, bit) do { if (strcmp((v), UNSET)) { MC_COUNT("setter_calls"); if (fn(u, (v)) == 0) accepted |= BIT(bit); else MC_COUNT("setter_rejections"); } } while (0)
	SET(evhttp_uri_set_scheme, S_SCHEME[sc], C_SCHEME);
	SET(evhttp_uri_set_userinfo, S_USER[us], C_USERINFO);
	if (strchr(S_HOST[ho], '>')) {
		char first[16]; const char *second = strchr(S_HOST[ho], '>') + 1;
		snprintf(first, sizeof first, "%.*s", (int)(second - 1 - S_HOST[ho]), S_HOST[ho]);
		MC_COUNTN("setter_calls", 2);
		if (evhttp_uri_set_host(u, first) != 0) MC_COUNT("setter_rejections");
		if (evhttp_uri_set_host(u, strcmp(second, "~") ? second : NULL) == 0) accepted |= BIT(C_HOST); else MC_COUNT("setter_rejections");
	} else
	SET(evhttp_uri_set_host, S_HOST[ho], C_HOST);
	SET(evhttp_uri_set_unixsocket, S_UNIX[un], C_UNIX);
	MC_COUNT("setter_calls");
	if (evhttp_uri_set_port(u, S_PORT[po]) == 0) accepted |= BIT(C_PORT); else MC_COUNT("setter_rejections");
	SET(evhttp_uri_set_path, S_PATH[pa], C_PATH);
	SET(evhttp_uri_set_query, S_QUERY[qu], C_QUERY);
	SET(evhttp_uri_set_fragment, S_FRAG[fr], C_FRAG);
	if (mc_replaying())
		printf("SETTERS flags=%#x scheme<-%s userinfo<-%s host<-%s unix<-%s port<-%d path<-%s query<-%s fragment<-%s\n",
		    fl, vis(S_SCHEME[sc]), vis(S_USER[us]), vis(S_HOST[ho]), vis(S_UNIX[un]), S_PORT[po], vis(S_PATH[pa]), vis(S_QUERY[qu]), vis(S_FRAG[fr]));
	judge_built(u, fl, i, accepted);
}

/* ---------------- domain seq ---------------- */
/* Multi-step use of the setters: a start URI (fresh, or parsed from a string with
 * the flag set) followed by `steps` setter calls drawn from SEQ_OPS, in every
 * order and combination; then the common oracle.  This reaches states single-shot
 * construction cannot (a component set, then changed or cleared; setters applied
 * to what the parser built, e.g. a bracket-stripped host replaced by a name). */
static const char *SEQ_START[] = { NULL /* evhttp_uri_new */, "http://[::1]:80/p?q#f", "//u@h", "/p", "http://[v1.a]", "s://unix:/s:/p" };
static const struct { char what; const char *v; int port; } SEQ_OPS[] = {
	{ 's', NULL, 0 }, { 's', "http", 0 },
	{ 'u', NULL, 0 }, { 'u', "u:p", 0 },
	{ 'h', NULL, 0 }, { 'h', "", 0 }, { 'h', "h", 0 }, { 'h', "1.2.3.4", 0 }, { 'h', "[::1]", 0 }, { 'h', "[v1.a]", 0 }, { 'h', "[::1", 0 },
	{ 'n', NULL, -1 }, { 'n', NULL, 80 },
	{ 'p', NULL, 0 }, { 'p', "", 0 }, { 'p', "/p", 0 }, { 'p', "p", 0 },
	{ 'q', NULL, 0 }, { 'q', "q=1", 0 },
	{ 'f', NULL, 0 }, { 'f', "f", 0 },
	{ 'x', NULL, 0 }, { 'x', "/s", 0 },
};
static int seq_steps = 3;
static uint64_t seq_count(void)
{
	uint64_t n = 8ull * N(SEQ_START);
	for (int k = 0; k < seq_steps; k++) n *= N(SEQ_OPS);
	return n;
}
static void item_seq(uint64_t i)
{
	uint64_t x = i; int ops[8]; unsigned accepted = 0;
	struct evhttp_uri *u;
	for (int k = seq_steps - 1; k >= 0; k--) { ops[k] = (int)(x % N(SEQ_OPS)); x /= N(SEQ_OPS); }
	int st = (int)(x % N(SEQ_START)); x /= N(SEQ_START);
	unsigned fl = FLAGSETS[x];
	live0 = mcx_alloc_live();
	if (SEQ_START[st]) u = evhttp_uri_parse_with_flags(SEQ_START[st], fl);
	else if ((u = evhttp_uri_new())) evhttp_uri_set_flags(u, fl);
	if (mc_replaying()) printf("SEQUENCE flags=%#x start=%s%s\n", fl, SEQ_START[st] ? vis(SEQ_START[st]) : "evhttp_uri_new()", u ? "" : " (rejected)");
	if (!u) { MC_COUNT("seq_start_rejected"); return; }
	for (int k = 0; k < seq_steps; k++) {
		const char *v = SEQ_OPS[ops[k]].v; int r = -2;
		switch (SEQ_OPS[ops[k]].what) {
		case 's': r = evhttp_uri_set_scheme(u, v); break;
		case 'u': r = evhttp_uri_set_userinfo(u, v); break;
		case 'h': r = evhttp_uri_set_host(u, v); break;
		case 'n': r = evhttp_uri_set_port(u, SEQ_OPS[ops[k]].port); break;
		case 'p': r = evhttp_uri_set_path(u, v); break;
		case 'q': r = evhttp_uri_set_query(u, v); break;
		case 'f': r = evhttp_uri_set_fragment(u, v); break;
		case 'x': r = evhttp_uri_set_unixsocket(u, v); break;
		}
		MC_COUNT("setter_calls");
		if (r == 0) accepted |= 1u << k; else MC_COUNT("setter_rejections");
		if (mc_replaying()) printf("  step %d: set %c <- %s / %d -> %d\n", k, SEQ_OPS[ops[k]].what, vis(v), SEQ_OPS[ops[k]].port, r);
	}
	MC_COUNT("seq_sequences_judged");
	judge_built(u, fl, i, accepted);
}

/* ------------------------------------------------------------------ */
static const char *argp(int argc, char **argv, const char *name, const char *dflt)
{
	size_t l = strlen(name);
	for (int i = 1; i + 1 < argc; i++)
		if (!strcmp(argv[i], "-P") && !strncmp(argv[i + 1], name, l) && argv[i + 1][l] == '=') return argv[i + 1] + l + 1;
	return dflt;
}

/* Items are visited through a fixed bijection of the index range (i -> i*K mod n,
 * gcd(K,n)=1): a level that completes covers exactly the same set; a level cut
 * off by its deadline has sampled the whole space evenly instead of one corner. */
static uint64_t perm_n, perm_k;
static void (*real_item)(uint64_t);
static uint64_t gcd64(uint64_t a, uint64_t b) { while (b) { uint64_t t = a % b; a = b; b = t; } return a; }
static void item_permuted(uint64_t i) { real_item((uint64_t)(((__uint128_t)i * perm_k) % perm_n)); }

int main(int argc, char **argv)
{
	struct mc_config cfg = { .property = "C28", .init = init };
	const char *dom = argp(argc, argv, "dom", "str");
	if (!strcmp(dom, "str")) {
		str_maxlen = atoi(argp(argc, argv, "len", "5"));
		str_prefix = argp(argc, argv, "prefix", "");
		if (str_maxlen < 0 || str_maxlen > 9 || strlen(str_prefix) > 8) { fprintf(stderr, "c28: bad len/prefix\n"); return 2; }
		ALPHA = argp(argc, argv, "alpha", ALPHA); NALPHA = (int)strlen(ALPHA);
		str_exact = atoi(argp(argc, argv, "exact", "0"));
		if (NALPHA < 1 || NALPHA > 16) { fprintf(stderr, "c28: bad alpha\n"); return 2; }
		cfg.n_items = count_strings(NALPHA, str_maxlen); real_item = item_str;
		if (str_exact) { cfg.n_items = 1; for (int k = 0; k < str_maxlen; k++) cfg.n_items *= (uint64_t)NALPHA; }
	} else if (!strcmp(dom, "gram")) {
		int sub = atoi(argp(argc, argv, "gsub", "0"));
		n_path = sub ? Q_PATH : N(G_PATH); n_query = sub ? Q_QUERY : N(G_QUERY); n_frag = sub ? Q_FRAG : N(G_FRAG);
		cfg.n_items = gram_count(); real_item = item_gram;
	} else if (!strcmp(dom, "set")) {
		cfg.n_items = set_count(); real_item = item_set;
	} else if (!strcmp(dom, "seq")) {
		seq_steps = atoi(argp(argc, argv, "steps", "3"));
		if (seq_steps < 1 || seq_steps > 6) { fprintf(stderr, "c28: bad steps\n"); return 2; }
		cfg.n_items = seq_count(); real_item = item_seq;
	} else { fprintf(stderr, "c28: unknown dom %s\n", dom); return 2; }
	perm_n = cfg.n_items;
	for (perm_k = 2654435761ull % perm_n; perm_k < 2 || gcd64(perm_k, perm_n) != 1; perm_k++) ;
	if (perm_n < 4) perm_k = 1;
	cfg.item = item_permuted;
	return mc_main(argc, argv, &cfg);
}
