/* C21 — token-bucket arithmetic: ev_token_bucket_update_, ev_token_bucket_get_tick_,
 * ev_token_bucket_cfg_new of the real bufferevent_ratelim.c (built with
 * -fsanitize=address,undefined so any signed overflow inside libevent aborts),
 * compared with an __int128 reference over the full cross product of named
 * boundary sets.  Shard mode; see notes/util.md for the alphabets.
 *
 *   part A  items [0, NV*NV)            : (read rate, read max) pair; inner loops
 *                                         ticks x levels x last_updated, the write
 *                                         side carries a different (rate, max, level)
 *   part B  items [NV*NV, +N_TICKLEN)   : get_tick_ for one tick length
 *   part C  items [.., +NB*NB)          : cfg_new for one (read_rate, read_burst) pair
 */
#include "mcx.h"
/* small ASan quarantine: freed blocks are reused quickly instead of every malloc touching fresh pages (20-40x faster here) */
const char *__asan_default_options(void) { return "quarantine_size_mb=4:thread_local_quarantine_size_kb=64"; }
#include <stdio.h>
#include <stdlib.h>
#include <string.h>
#include <limits.h>
#include <sys/time.h>
#include "event2/event.h"
#include "event2/bufferevent.h"
#include "ratelim-internal.h"
#include "event-internal.h"

typedef __int128 i128;
typedef unsigned __int128 u128;

#define SMAX ((int64_t)EV_SSIZE_MAX)
#define SMIN ((int64_t)EV_SSIZE_MIN)
#define MAGIC 0x50000000L

static int FULL;

/* ---------------------------------------------------------------- alphabets */
static uint64_t V[1024]; static int NV;         /* rates / maxima, 1..EV_RATE_LIMIT_MAX */
static uint32_t T[512]; static int NT;         /* tick differences */
static uint32_t L[16]; static int NL;           /* last_updated values */

static int cmp_u64(const void *a, const void *b) { uint64_t x = *(const uint64_t *)a, y = *(const uint64_t *)b; return x < y ? -1 : x > y; }
static int cmp_u32(const void *a, const void *b) { uint32_t x = *(const uint32_t *)a, y = *(const uint32_t *)b; return x < y ? -1 : x > y; }
static int cmp_i64(const void *a, const void *b) { int64_t x = *(const int64_t *)a, y = *(const int64_t *)b; return x < y ? -1 : x > y; }

static int uniq_u64(uint64_t *a, int n) { int m = 0; qsort(a, n, sizeof *a, cmp_u64); for (int i = 0; i < n; i++) if (!m || a[m-1] != a[i]) a[m++] = a[i]; return m; }
static int uniq_u32(uint32_t *a, int n) { int m = 0; qsort(a, n, sizeof *a, cmp_u32); for (int i = 0; i < n; i++) if (!m || a[m-1] != a[i]) a[m++] = a[i]; return m; }
static int uniq_i64(int64_t *a, int n) { int m = 0; qsort(a, n, sizeof *a, cmp_i64); for (int i = 0; i < n; i++) if (!m || a[m-1] != a[i]) a[m++] = a[i]; return m; }

static void addV(u128 v) { if (v >= 1 && v <= (u128)SMAX) V[NV++] = (uint64_t)v; }

static void build_V(int full)
{
	NV = 0;
	for (int k = 0; k <= 63; k++) { u128 p = (u128)1 << k; int r = full >= 2 ? 3 : 1; for (int d = -r; d <= r; d++) addV((u128)((i128)p + d));
		if (full >= 2) { addV(p * 3); addV(p * 5); addV(p * 3 / 2 + 1); } }
	addV(3); addV(5); addV(7); addV(10); addV(100); addV(1000); addV(16384); addV(1000000007ULL);
	addV((u128)SMAX - 1); addV((u128)SMAX); addV((u128)SMAX / 3); addV((u128)SMAX / 2 + 1);
	if (full >= 2) { u128 p = 1; for (int j = 1; j <= 18; j++) { p *= 10; addV(p - 1); addV(p); addV(p + 1); }
		addV((u128)SMAX - 2); addV((u128)SMAX - 3); addV((u128)SMAX / 10); addV((u128)SMAX / 3 * 2); addV(1500); addV(65535 * 3); addV(16384 * 3); }
	NV = uniq_u64(V, NV);
}
static void build_sets(void)
{
	static int done; if (done) return; done = 1;
	build_V(FULL);
	NT = 0;
	if (FULL) {
		int r = FULL >= 2 ? 2 : 1;
		for (int k = 0; k <= 32; k++) { uint64_t p = 1ULL << k; for (int d = -r; d <= r; d++) T[NT++] = (uint32_t)(p + d); if (FULL >= 2 && k < 31) { T[NT++] = (uint32_t)(p * 3); T[NT++] = (uint32_t)(p * 3 - 1); } }
		T[NT++] = 3; T[NT++] = 7; T[NT++] = 10; T[NT++] = 1000; T[NT++] = 86400; T[NT++] = 0x7ffffffeu; T[NT++] = 0xfffffffeu; T[NT++] = 0xc0000000u;
		if (FULL >= 2) { uint32_t p = 1; for (int j = 1; j <= 9; j++) { p *= 10; T[NT++] = p - 1; T[NT++] = p; T[NT++] = p + 1; } T[NT++] = 60; T[NT++] = 3600; T[NT++] = 604800; T[NT++] = 0x7ffffffdu; T[NT++] = 0x80000002u; }
	} else {
		static const uint32_t t[] = { 0, 1, 2, 3, 4, 7, 255, 256, 65535, 65536, 65537, 0x00ffffffu, 0x3fffffffu, 0x40000000u,
		    0x7ffffffeu, 0x7fffffffu, 0x80000000u, 0x80000001u, 0xc0000000u, 0xfffffffeu, 0xffffffffu };
		for (unsigned i = 0; i < sizeof t / sizeof t[0]; i++) T[NT++] = t[i];
	}
	NT = uniq_u32(T, NT);
	NL = 0;
	L[NL++] = 0; L[NL++] = 0xffffffffu; L[NL++] = 0x80000000u;
	if (FULL) { L[NL++] = 1; L[NL++] = 0x7fffffffu; L[NL++] = 123456789u; }
	if (FULL >= 2) { L[NL++] = 0xfffffffeu; L[NL++] = 0x80000001u; L[NL++] = 0x7ffffffeu; L[NL++] = 0xc0000000u; }
}

/* level alphabet for one side, depends on (rate, max, n) so that the exact
 * clamp boundary max - n*rate and the 64-bit wrap points are always present */
static int build_levels(int64_t *lv, uint64_t rate, uint64_t max, uint32_t n)
{
	i128 c[80]; int nc = 0, m = 0;
	i128 R = (i128)rate, M = (i128)max, N = (i128)n;
	c[nc++] = SMIN; c[nc++] = (i128)SMIN + 1; c[nc++] = (i128)SMIN + 2; c[nc++] = (i128)SMIN + R;
	c[nc++] = -((i128)1 << 62) - 1; c[nc++] = -((i128)1 << 62); c[nc++] = -((i128)1 << 32) - 1; c[nc++] = -((i128)1 << 32);
	c[nc++] = -((i128)1 << 31); c[nc++] = -M - 1; c[nc++] = -M; c[nc++] = -R - 1; c[nc++] = -R; c[nc++] = -N * R; c[nc++] = -2; c[nc++] = -1;
	c[nc++] = 0; c[nc++] = 1; c[nc++] = 2; c[nc++] = R - 1; c[nc++] = R; c[nc++] = R + 1;
	c[nc++] = M - R - 1; c[nc++] = M - R; c[nc++] = M - R + 1; c[nc++] = M - 2; c[nc++] = M - 1; c[nc++] = M;
	c[nc++] = M + 1; c[nc++] = M + 2; c[nc++] = M + R; c[nc++] = M + N * R; c[nc++] = 2 * M; c[nc++] = M / 2;
	c[nc++] = M - N * R - 2; c[nc++] = M - N * R - 1; c[nc++] = M - N * R; c[nc++] = M - N * R + 1; c[nc++] = M - N * R + 2;
	c[nc++] = M - (N - 1) * R; c[nc++] = M - (N + 1) * R;
	c[nc++] = (i128)SMAX - N * R - 1; c[nc++] = (i128)SMAX - N * R; c[nc++] = (i128)SMAX - N * R + 1;
	c[nc++] = (i128)SMAX - R; c[nc++] = (i128)SMAX - 1; c[nc++] = SMAX; c[nc++] = (i128)SMAX / 2; c[nc++] = (i128)SMAX / 2 + 1;
	/* level such that (max - level) just reaches / passes 2^64 - 1 or 2^63 as an unsigned difference */
	c[nc++] = M - (((i128)1 << 63) - 1); c[nc++] = M - ((i128)1 << 63); c[nc++] = M - ((i128)1 << 63) - 1;
	for (int i = 0; i < nc; i++) if (c[i] >= (i128)SMIN && c[i] <= (i128)SMAX) lv[m++] = (int64_t)c[i];
	return uniq_i64(lv, m);
}

/* ---------------------------------------------------------------- part A */
static struct { int ret, wrong, above, nochange, last; } rep;   /* one report per key per item */
static uint64_t n_refill, n_noop, n_clamped, n_added, n_above, n_negative, n_wrap;

static void check_update(const struct ev_token_bucket_cfg *cfg, int64_t rl, int64_t wl, uint32_t last, uint32_t n)
{
	struct ev_token_bucket b, before;
	uint32_t cur = last + n;
	memset(&b, 0, sizeof b);
	b.read_limit = rl; b.write_limit = wl; b.last_updated = last;
	before = b;
	int r = ev_token_bucket_update_(&b, cfg, cur);
	if (n == 0 || n > (uint32_t)INT_MAX) {
		n_noop++;
		if (r != 0 && !rep.ret++) mc_fail("C21/update/returns-nonzero-for-zero-or-backward-tick", "n_ticks=%u (last=%u cur=%u) returned %d", n, last, cur, r);
		if (memcmp(&b, &before, sizeof b) && !rep.nochange++)
			mc_fail("C21/update/zero-or-backward-tick-changes-bucket", "n_ticks=%u last=%u: read %lld->%lld write %lld->%lld last_updated %u->%u",
			    n, last, (long long)rl, (long long)b.read_limit, (long long)wl, (long long)b.write_limit, last, b.last_updated);
		return;
	}
	n_refill++;
	if (last > cur) n_wrap++;
	if (r != 1 && !rep.ret++) mc_fail("C21/update/returns-zero-for-forward-tick", "n_ticks=%u returned %d", n, r);
	if (b.last_updated != cur && !rep.last++) mc_fail("C21/update/last-updated-not-advanced", "last=%u cur=%u left %u", last, cur, b.last_updated);
	for (int side = 0; side < 2; side++) {
		int64_t lvl = side ? wl : rl, got = side ? b.write_limit : b.read_limit;
		uint64_t rate = side ? cfg->write_rate : cfg->read_rate, max = side ? cfg->write_maximum : cfg->read_maximum;
		i128 sum = (i128)lvl + (i128)n * (i128)rate;
		i128 want = sum < (i128)max ? sum : (i128)max;
		if (sum < (i128)max) n_added++; else n_clamped++;
		if (lvl < 0) n_negative++;
		if ((i128)lvl > (i128)max) n_above++;
		if ((i128)got == want) continue;
		/* classify: the one known shape is "level already above the maximum, refill added on top (mod 2^64)" */
		if ((i128)lvl > (i128)max && (uint64_t)got == (uint64_t)lvl + (uint64_t)n * rate) {
			if (!rep.above++)
				mc_fail("C21/update/level-above-max-not-clamped", "%s: level=%lld max=%llu rate=%llu n_ticks=%u -> %lld, expected min(max, level+n*rate)=%lld",
				    side ? "write" : "read", (long long)lvl, (unsigned long long)max, (unsigned long long)rate, n, (long long)got, (long long)want);
		} else if (!rep.wrong++)
			mc_fail("C21/update/wrong-level", "%s: level=%lld max=%llu rate=%llu n_ticks=%u -> %lld, expected %lld",
			    side ? "write" : "read", (long long)lvl, (unsigned long long)max, (unsigned long long)rate, n, (long long)got, (long long)want);
	}
}

static void item_update(uint64_t idx)
{
	int ri = idx / NV, mi = idx % NV;
	if (ri > mi) return;                      /* cfg_new requires rate <= burst (rejections are part C) */
	uint64_t rate = V[ri], max = V[mi];
	uint64_t wr = V[(ri * 5 + 3) % NV], wm = V[(mi * 3 + 7) % NV];
	if (wr > wm) { uint64_t t = wr; wr = wm; wm = t; }
	struct timeval tick = { 0, 1000 * (1 + (int)(idx % 7)) };
	struct ev_token_bucket_cfg *cfg = ev_token_bucket_cfg_new(rate, max, wr, wm, &tick);
	if (!cfg) { mc_fail("C21/cfg_new/rejects-valid", "rr=%llu rb=%llu wr=%llu wb=%llu", (unsigned long long)rate, (unsigned long long)max, (unsigned long long)wr, (unsigned long long)wm); return; }
	memset(&rep, 0, sizeof rep);
	n_refill = n_noop = n_clamped = n_added = n_above = n_negative = n_wrap = 0;
	int64_t rlv[96], wlv[96];
	for (int ti = 0; ti < NT; ti++) {
		uint32_t n = T[ti];
		/* for backward/zero ticks the level set is built as if n were 1: the values only need to be varied */
		uint32_t nn = (n == 0 || n > (uint32_t)INT_MAX) ? 1 : n;
		int nr = build_levels(rlv, rate, max, nn), nw = build_levels(wlv, wr, wm, nn);
		for (int li = 0; li < nr; li++) {
			int64_t wl = wlv[(li * 7 + ti) % nw];
			for (int k = 0; k < NL; k++)
				check_update(cfg, rlv[li], wl, L[k], n);
		}
		/* and every write level at least once */
		for (int li = 0; li < nw; li++)
			check_update(cfg, rlv[(li * 5 + 1) % nr], wlv[li], L[ti % NL], n);
	}
	ev_token_bucket_cfg_free(cfg);
	MC_COUNTN("update_refill_cases", n_refill); MC_COUNTN("update_zero_or_backward_cases", n_noop);
	MC_COUNTN("update_side_clamped", n_clamped); MC_COUNTN("update_side_added", n_added);
	MC_COUNTN("update_side_level_above_max", n_above); MC_COUNTN("update_side_level_negative", n_negative);
	MC_COUNTN("update_tick_counter_wrapped", n_wrap);
	if (n_refill) mc_nontrivial(idx + 1);
	mc_observe("update: read rate=%llu max=%llu | write rate=%llu max=%llu: %llu refills, %llu zero/backward",
	    (unsigned long long)rate, (unsigned long long)max, (unsigned long long)wr, (unsigned long long)wm, (unsigned long long)n_refill, (unsigned long long)n_noop);
}

/* ---------------------------------------------------------------- tick lengths */
struct tl { int null; long sec, usec; };
static struct tl TL[640] = {
	{1,0,0}, {0,0,0}, {0,0,1}, {0,0,999}, {0,0,1000}, {0,0,1001}, {0,0,1999}, {0,0,2000}, {0,0,3000}, {0,0,7000}, {0,0,10000},
	{0,0,999000}, {0,0,999999}, {0,1,0}, {0,1,999}, {0,1,1000}, {0,1,999999}, {0,2,500000}, {0,60,0}, {0,3600,0}, {0,86400,0},
	{0,2147482,999999}, {0,2147483,0}, {0,2147483,647000}, {0,2147483,648000}, {0,2147483,999999}, {0,2147484,0},
	{0,INT_MAX,0}, {0,(long)INT_MAX + 1,0}, {0,1L << 32,0}, {0,(1L << 32) + 1,1000}, {0,LONG_MAX,0}, {0,LONG_MAX / 1000,0}, {0,LONG_MAX / 1000 + 1,0},
	{0,-1,0}, {0,-1,999999}, {0,-1,1000000}, {0,-2147484,0}, {0,LONG_MIN,0},
	{0,0,MAGIC}, {0,0,MAGIC | 999}, {0,0,MAGIC | 1000}, {0,0,MAGIC | 999999}, {0,1,MAGIC}, {0,1,MAGIC | 250000}, {0,-1,MAGIC | 5000}, {0,0,MAGIC | 0x00100000 | 1000},
};
static int N_TL = 47;
/* -P full=2: the cross product of second and microsecond forms, incl. microsecond values whose only set bits lie above the 20-bit field */
static void build_TL(int full)
{
	static const long SECS[] = { 0, 1, 2, 59, 60, 999, 1000, 2147, 2147482, 2147483, 2147484, -1 };
	static const long USECS[] = { 0, 1, 500, 998, 999, 1000, 1001, 1500, 1999, 2000, 2001, 10000, 500000, 999000, 999999, MAGIC, MAGIC | 1, MAGIC | 999, MAGIC | 1000, MAGIC | 999999,
	    0x00100000, 0x00100000 | 999, 0x00100000 | 1000, 0x7ff00000, 0x7ff00000 | 2000 };
	if (full < 2) return;
	for (unsigned a = 0; a < sizeof SECS / sizeof SECS[0]; a++) for (unsigned b = 0; b < sizeof USECS / sizeof USECS[0]; b++) {
		int dup = 0; for (int i = 0; i < N_TL; i++) dup |= !TL[i].null && TL[i].sec == SECS[a] && TL[i].usec == USECS[b];
		if (!dup) { TL[N_TL].null = 0; TL[N_TL].sec = SECS[a]; TL[N_TL].usec = USECS[b]; N_TL++; }
	}
}

/* reference: is the tick length acceptable, and how many ms is it (fractions of a ms ignored,
 * the bits above the 20-bit microsecond field of a "common timeout" timeval are not part of the length) */
static int ref_tick(const struct tl *t, unsigned *msec)
{
	if (t->null) { *msec = 1000; return 1; }
	if (t->sec < 0 || t->sec > INT_MAX / 1000) return 0;
	i128 ms = (i128)t->sec * 1000 + (t->usec & 0xfffff) / 1000;
	if (ms <= 0) return 0;
	*msec = (unsigned)ms;
	return 1;
}

/* ---------------------------------------------------------------- part B */
static void item_tick(uint64_t idx)
{
	const struct tl *t = &TL[idx];
	unsigned mpt;
	if (!ref_tick(t, &mpt)) return;
	struct timeval tv = { t->sec, t->usec };
	struct ev_token_bucket_cfg *cfg = ev_token_bucket_cfg_new(1, 1, 1, 1, t->null ? NULL : &tv);
	if (!cfg) { mc_fail("C21/cfg_new/rejects-valid", "tick_len %ld.%06ld", t->sec, t->usec); return; }
	if (cfg->msec_per_tick != mpt) { mc_fail("C21/cfg_new/wrong-msec-per-tick", "tick_len %ld s %ld us: msec_per_tick=%u expected %u", t->sec, t->usec, cfg->msec_per_tick, mpt); ev_token_bucket_cfg_free(cfg); return; }
	uint64_t ms[400]; int nm = 0;
	static const uint64_t K[] = { 0, 1, 2, 3, 65535, 65536, 0x7fffffffULL, 0x80000000ULL, 0xffffffffULL, 0x100000000ULL, 0x100000001ULL, 0x180000000ULL, 0x200000000ULL, 0xffffffffffULL };
	for (unsigned k = 0; k < sizeof K / sizeof K[0]; k++) {
		u128 b = (u128)K[k] * mpt;
		for (int d = -2; d <= 2; d++) { i128 v = (i128)b + d; if (v >= 0 && v <= ((i128)1 << 62)) ms[nm++] = (uint64_t)v; }
		for (int d = -1; d <= 1; d++) { i128 v = (i128)K[k] + d; if (v >= 0) ms[nm++] = (uint64_t)v; }                  /* as plain ms */
		for (int d = -1; d <= 1; d++) { i128 v = (i128)K[k] * 1000 + d; if (v >= 0) ms[nm++] = (uint64_t)v; }           /* as seconds */
	}
	for (int k = 33; k <= 62; k += (FULL ? 1 : 7)) { ms[nm++] = (1ULL << k) - 1; ms[nm++] = 1ULL << k; }
	nm = uniq_u64(ms, nm);
	static const int US[] = { 0, 1, 499, 500, 999 };
	uint64_t n = 0, bad = 0, wraps = 0;
	for (int i = 0; i < nm; i++)
		for (unsigned u = 0; u < sizeof US / sizeof US[0]; u++) {
			struct timeval now = { (long)(ms[i] / 1000), (long)(ms[i] % 1000) * 1000 + US[u] };
			uint32_t want = (uint32_t)((((u128)now.tv_sec * 1000) + (u128)(now.tv_usec / 1000)) / mpt);
			uint32_t got = ev_token_bucket_get_tick_(&now, cfg);
			n++;
			if (ms[i] / mpt > 0xffffffffULL) wraps++;
			if (got != want && !bad++) mc_fail("C21/get_tick/wrong-tick", "tv=%ld.%06ld msec_per_tick=%u -> %u expected %u", (long)now.tv_sec, (long)now.tv_usec, mpt, got, want);
		}
	/* every millisecond of the first ticks, and of the ticks around the 32-bit wrap of the counter */
	uint64_t span = (FULL ? 20000 : 3000);
	uint64_t starts[2] = { 0, ((u128)0x100000000ULL * mpt > span / 2) ? (uint64_t)((u128)0x100000000ULL * mpt - span / 2) : 0 };
	for (int s = 0; s < 2; s++)
		for (uint64_t m = starts[s]; m < starts[s] + span; m++) {
			struct timeval now = { (long)(m / 1000), (long)(m % 1000) * 1000 + (long)(m % 3) * 499 };
			uint32_t want = (uint32_t)((u128)m / mpt);
			uint32_t got = ev_token_bucket_get_tick_(&now, cfg);
			n++;
			if (m / mpt > 0xffffffffULL) wraps++;
			if (got != want && !bad++) mc_fail("C21/get_tick/wrong-tick", "tv=%ld.%06ld msec_per_tick=%u -> %u expected %u", (long)now.tv_sec, (long)now.tv_usec, mpt, got, want);
		}
	/* a bucket driven by get_tick_: time moving forward by k tick lengths across the wrap refills k*rate */
	ev_token_bucket_cfg_free(cfg);
	MC_COUNTN("get_tick_cases", n); MC_COUNTN("get_tick_cases_past_32bit_wrap", wraps);
	mc_nontrivial(0x100000000ULL + idx);
	mc_observe("get_tick: msec_per_tick=%u, %llu time values", mpt, (unsigned long long)n);
}

/* ---------------------------------------------------------------- part C */
static uint64_t B[24]; static int NB;
static void build_B(void)
{
	static int done; if (done) return; done = 1;
	uint64_t m = (uint64_t)SMAX;
	uint64_t b[] = { 0, 1, 2, 3, 0x7fffffffULL, 0x80000000ULL, 0xffffffffULL, 0x100000000ULL, 0x100000001ULL, (1ULL << 62) - 1, 1ULL << 62, (1ULL << 62) + 1,
	    m - 1, m, m + 1, m + 2, ~0ULL - 1, ~0ULL };
	NB = sizeof b / sizeof b[0];
	memcpy(B, b, sizeof b);
}

static void item_cfg(uint64_t idx)
{
	uint64_t rr = B[idx / NB], rb = B[idx % NB];
	uint64_t acc = 0, rej = 0; int bad_acc = 0, bad_rej = 0, bad_f = 0;
	for (int a = 0; a < NB; a++) for (int b = 0; b < NB; b++) {
		uint64_t wr = B[a], wb = B[b];
		int rates_ok = rr >= 1 && rr <= rb && rb <= (uint64_t)SMAX && wr >= 1 && wr <= wb && wb <= (uint64_t)SMAX;
		for (int t = 0; t < N_TL; t++) {
			/* with bad rates every tick length is tried; with good rates as well (N_TL is small) */
			struct timeval tv = { TL[t].sec, TL[t].usec };
			unsigned mpt = 0;
			int want = ref_tick(&TL[t], &mpt) && rates_ok;
			struct ev_token_bucket_cfg *cfg = ev_token_bucket_cfg_new(rr, rb, wr, wb, TL[t].null ? NULL : &tv);
			if (cfg && !want) { if (!bad_acc++) mc_fail("C21/cfg_new/accepts-invalid", "rr=%llu rb=%llu wr=%llu wb=%llu tick=%s%ld s %ld us accepted",
				(unsigned long long)rr, (unsigned long long)rb, (unsigned long long)wr, (unsigned long long)wb, TL[t].null ? "NULL " : "", TL[t].sec, TL[t].usec); }
			else if (!cfg && want) { if (!bad_rej++) mc_fail("C21/cfg_new/rejects-valid", "rr=%llu rb=%llu wr=%llu wb=%llu tick=%s%ld s %ld us rejected",
				(unsigned long long)rr, (unsigned long long)rb, (unsigned long long)wr, (unsigned long long)wb, TL[t].null ? "NULL " : "", TL[t].sec, TL[t].usec); }
			else if (cfg) {
				struct timeval one = { 1, 0 };
				const struct timeval *exp_tv = TL[t].null ? &one : &tv;
				if ((cfg->read_rate != rr || cfg->read_maximum != rb || cfg->write_rate != wr || cfg->write_maximum != wb || cfg->msec_per_tick != mpt ||
				    cfg->tick_timeout.tv_sec != exp_tv->tv_sec || cfg->tick_timeout.tv_usec != exp_tv->tv_usec) && !bad_f++)
					mc_fail("C21/cfg_new/wrong-fields", "rr=%llu rb=%llu wr=%llu wb=%llu tick %ld/%ld: stored %llu %llu %llu %llu msec=%u (expected %u) tick %ld/%ld",
					    (unsigned long long)rr, (unsigned long long)rb, (unsigned long long)wr, (unsigned long long)wb, (long)exp_tv->tv_sec, (long)exp_tv->tv_usec,
					    (unsigned long long)cfg->read_rate, (unsigned long long)cfg->read_maximum, (unsigned long long)cfg->write_rate, (unsigned long long)cfg->write_maximum,
					    cfg->msec_per_tick, mpt, (long)cfg->tick_timeout.tv_sec, (long)cfg->tick_timeout.tv_usec);
			}
			if (cfg) { acc++; ev_token_bucket_cfg_free(cfg); } else rej++;
		}
	}
	MC_COUNTN("cfg_new_accepted", acc); MC_COUNTN("cfg_new_rejected", rej);
	mc_nontrivial(0x200000000ULL + idx);
	mc_observe("cfg_new: read_rate=%llu read_burst=%llu: %llu accepted %llu rejected", (unsigned long long)rr, (unsigned long long)rb, (unsigned long long)acc, (unsigned long long)rej);
}

/* ---------------------------------------------------------------- */
static uint64_t NA, NBt, NC;

static void item(uint64_t i)
{
	build_sets(); build_B();
	if (i < NA) item_update(i);
	else if (i < NA + NBt) item_tick(i - NA);
	else item_cfg(i - NA - NBt);
}

int main(int argc, char **argv)
{
	/* the alphabets (and with them n_items) depend on -P full=, which is needed before mc_main parses argv */
	for (int i = 1; i + 1 < argc; i++) if (!strcmp(argv[i], "-P") && !strncmp(argv[i + 1], "full=", 5)) FULL = atoi(argv[i + 1] + 5);
	build_V(FULL); build_TL(FULL);
	build_B();
	NA = (uint64_t)NV * NV; NBt = N_TL; NC = (uint64_t)NB * NB;
	struct mc_config cfg = { .property = "C21", .n_items = NA + NBt + NC, .item = item };
	return mc_main(argc, argv, &cfg);
}
