/* C11 — events keep working in a forked child after event_reinit; notifications stay
 * with their owner; the parent's registrations are unaffected.
 *
 * -P backend=0..3 (epoll, epoll+changelist, poll, select)  -P sigfd=0|1  -P depth=N
 * Thread support is on (evthread_use_pthreads), so every base also owns a wake-up fd.
 *
 * Events (static storage):  R0 read on a readable pipe (fd 20), R1 read on an idle AF_UNIX
 * socket (fd 70), W0 write on a writable pipe end (fd 24), T0 5 ms persistent timer,
 * S0 SIGUSR1, EX = edge-triggered read on a readable pipe (fd 26, epoll only),
 * CL = EV_CLOSED on W0's descriptor (fd 24, epoll only; two events sharing one fd: the
 * re-registration after the fork has to carry the union of both, i.e. EPOLLOUT and EPOLLRDHUP).
 *
 * One execution:
 *   pre-fork history (mc_choose, depth N) over: toggle each event, loop (one iteration),
 *       advance the virtual clock 5 ms, event_active(R1)
 *   fork point (mc_choose): 0 outside the loop; 1 inside the first callback of one more loop
 *       iteration (other ready events are still queued as active); 2 like 1, but the callback
 *       first event_del()s another added event
 *   the child calls event_reinit(); then child and — after the child has exited — the parent
 *   run the same fixed continuation: loop / advance+loop / raise+loop / del R0,S0+loop /
 *   add R0,S0+raise+loop / private fresh pipe + event + write + loop / del W0+loop /
 *   wake-up+loop / trailing raise and wake-up that nobody consumes.  -P cont=1 selects a second
 *   continuation: delete everything, loop on the empty base, add everything again, timer + signal +
 *   manual activation, partial deletes, wake-up, signal re-add, trailing raise and wake-up.
 *
 * Oracle:
 *   differential  the child's callback log (event, flags, per iteration) from the fork point on
 *                 equals the parent's (EX is left out: a rebuilt epoll set reports an edge once more)
 *   registration  at every wait of both processes the kernel-facing set equals the union of the
 *                 added events (so everything added before the fork is registered in the child)
 *   isolation     after the child has exited: the parent's epoll interest list, its signal
 *                 disposition and its wake-up fd are exactly as before the fork (the child's
 *                 deletes, trailing raise and trailing wake-up did not reach it)
 *   hygiene       the child frees everything (allocation count, fd table) */
#include "backend_digest.h"

enum { R0, R1, W0, T0, S0, EX, CL, RF, NEVT };
static const char *const ename[NEVT] = { "R0", "R1", "W0", "T0", "S0", "EX", "CL", "RF" };
static const int efd[NEVT] = { 20, 70, 24, -1, SIGUSR1, 26, 24, 30 };
static const short eflags[NEVT] = { EV_READ | EV_PERSIST, EV_READ | EV_PERSIST, EV_WRITE | EV_PERSIST, EV_PERSIST, EV_SIGNAL | EV_PERSIST, EV_READ | EV_ET | EV_PERSIST, EV_CLOSED | EV_PERSIST, EV_READ | EV_PERSIST };
#define NPRE 7                       /* events that can be toggled before the fork: R0..CL (EX and CL on epoll only) */

static int BK, SIGFD, IS_EPOLL;
static struct event_base *base;
static struct event ev[NEVT]; static int added[NEVT];
static char logbuf[4096]; static int loglen;
static int fork_mode, fork_armed, forked, n_cb_total, rf_open;
static long live0; static uint64_t fd0; static struct sigaction sa_user;
static char keybuf[96], child_log[4096], prefork_log[1024];
static struct bk_epreg reg_before[32]; static int nreg_before;
static struct sigaction sig_before;

static const char *K(const char *what) { snprintf(keybuf, sizeof keybuf, "C11/%s%s/%s", bk_name[BK], SIGFD ? "+signalfd" : "", what); return keybuf; }
#define FAIL bk_cfail
static void user_handler(int s) { (void)s; }
/* callbacks of one iteration are logged as a sorted set: the order of callbacks of
 * different fds within an iteration is unconstrained (and a rebuilt epoll set
 * reports in a different order) */
static char itok[16][16]; static int nitok;
static void LOG(const char *fmt, ...) __attribute__((format(printf, 1, 2)));
static void LOG(const char *fmt, ...)
{
	va_list ap; va_start(ap, fmt);
	int n = vsnprintf(logbuf + loglen, sizeof logbuf - loglen, fmt, ap);
	va_end(ap);
	if (n > 0 && loglen + n < (int)sizeof logbuf) loglen += n;
}

static void flush_tokens(void)
{
	qsort(itok, nitok, sizeof itok[0], (int (*)(const void *, const void *))strcmp);
	for (int i = 0; i < nitok; i++) LOG("%s ", itok[i]);
	nitok = 0;
}

/* ---- registration oracle (all backends) ------------------------------------ */
static void check_registration(int kind, void *a, long n)
{
	static const int io[] = { R0, R1, W0, EX, RF };
	const char *who = bk_in_child ? "child" : (forked ? "parent-after-fork" : "parent");
	struct bk_epreg r[32]; int c = 0;
	MC_COUNT("c11_registration_checks");
	if (kind == 'e') c = bk_epoll_registrations(*(int *)a, r, 32);
	for (unsigned k = 0; k < sizeof io / sizeof *io; k++) {
		int e = io[k], fd = efd[e], have = -1, het = 0, hrd = 0, cl = (e == W0) && added[CL];
		short want = added[e] ? (eflags[e] & (EV_READ | EV_WRITE)) : 0; int wet = added[e] && (eflags[e] & EV_ET);
		if (kind == 'e') {
			for (int i = 0; i < c; i++) if (r[i].fd == fd) { have = (r[i].events & EPOLLIN ? EV_READ : 0) | (r[i].events & EPOLLOUT ? EV_WRITE : 0); het = !!(r[i].events & EPOLLET); hrd = !!(r[i].events & EPOLLRDHUP); }
		} else if (kind == 'p') {
			struct pollfd *p = a;
			for (long i = 0; i < n; i++) if (p[i].fd == fd) have = (p[i].events & POLLIN ? EV_READ : 0) | (p[i].events & POLLOUT ? EV_WRITE : 0);
			wet = 0;
		} else {
			fd_set **s = a; int r = fd < n && FD_ISSET(fd, s[0]), w = fd < n && FD_ISSET(fd, s[1]);
			if (r || w) have = (r ? EV_READ : 0) | (w ? EV_WRITE : 0);
			wet = 0;
		}
		if (want && have <= 0) FAIL(K("registration-missing"), "%s: %s is added on fd %d but the kernel-facing set has no entry for it", who, ename[e], fd);
		else if (!want && cl && have < 0) FAIL(K("registration-missing"), "%s: CL (EV_CLOSED) is added on fd %d but the kernel-facing set has no entry for it", who, fd);
		else if (!want && cl && have > 0) FAIL(K("registration-wrong"), "%s: only CL (EV_CLOSED) is added on fd %d, kernel-facing set also has %#x", who, fd, have);
		else if (!want && cl) ;
		else if (!want && have >= 0) FAIL(K("registration-stale"), "%s: %s is not added but fd %d is still in the kernel-facing set (%#x)", who, ename[e], fd, have);
		else if (want && have != want) FAIL(K("registration-wrong"), "%s: %s on fd %d wants %#x, kernel-facing set has %#x", who, ename[e], fd, want, have);
		else if (want && wet != het) FAIL(K("registration-et"), "%s: %s on fd %d: edge-triggered requested=%d registered=%d", who, ename[e], fd, wet, het);
		if (kind == 'e' && e == W0 && have >= 0 && hrd != cl) FAIL(K("registration-closed"), "%s: fd %d: EV_CLOSED event added=%d, EPOLLRDHUP registered=%d (W0 added=%d)", who, fd, cl, hrd, added[W0]);
	}
}
static void prewait(int kind, void *a, long n, int64_t t) { (void)t; check_registration(kind, a, n); }

/* ---- callbacks ---------------------------------------------------------------- */
static void do_fork_in_callback(int self);
static void cb(evutil_socket_t fd, short what, void *arg)
{
	int e = (int)(intptr_t)arg;
	n_cb_total++;
	if (fd != efd[e]) FAIL(K("callback-fd"), "%s called with fd %d", ename[e], (int)fd);
	if (e == EX) { MC_COUNT("c11_et_callbacks"); }         /* not part of the differential log */
	else if (nitok < 16) snprintf(itok[nitok++], sizeof itok[0], "%s:%x", ename[e], (unsigned)what);
	if (!added[e] && !(e == R1)) FAIL(K("callback-not-added"), "%s ran but is not added", ename[e]);
	if (fork_armed) { fork_armed = 0; do_fork_in_callback(e); }
}

static void one_loop(void)
{
	int r = event_base_loop(base, EVLOOP_ONCE | EVLOOP_NONBLOCK);
	if (r < 0) FAIL(K("loop-failed"), "event_base_loop returned %d (%s)", r, bk_last_warning);
	flush_tokens();
	LOG("/ ");
}
static void xadd(int e)
{
	struct timeval tv = { 0, 5000 };
	/* event_add on an event that is active but not inserted leaves its I/O part unregistered
	 * (DESIGN Appendix A, C02 reading): the model follows that */
	int only_active = (ev[e].ev_flags & (EVLIST_ACTIVE | EVLIST_ACTIVE_LATER)) && !(ev[e].ev_flags & EVLIST_INSERTED);
	if (event_add(&ev[e], e == T0 ? &tv : NULL) != 0) FAIL(K("add-failed"), "event_add(%s) failed (%s)", ename[e], bk_last_warning);
	added[e] = (e == T0 || e == S0) ? 1 : !only_active;
	if (only_active) LOG("(add of active %s ignored) ", ename[e]);
}
static void xdel(int e)
{
	if (event_del(&ev[e]) != 0) FAIL(K("del-failed"), "event_del(%s) failed (%s)", ename[e], bk_last_warning);
	added[e] = 0;
}

/* ---- the part both processes run after the fork ------------------------------- */
static void continuation(void)
{
	one_loop();
	vclock_advance(5000); one_loop();
	if (added[S0]) raise(SIGUSR1);
	one_loop();
	if (added[R0]) xdel(R0);
	if (added[S0]) xdel(S0);
	one_loop();
	xadd(R0); xadd(S0); raise(SIGUSR1);
	one_loop();
	{       /* a descriptor born after the fork: private to each process */
		int p[2];
		if (pipe2(p, O_NONBLOCK) < 0) { FAIL("harness:pipe", "%s", strerror(errno)); return; }
		if (p[0] == 31) { int c = dup(p[0]); close(p[0]); p[0] = c; }
		bk_move_fd(p[1], 31); bk_move_fd(p[0], 30); rf_open = 1;
		event_assign(&ev[RF], base, 30, eflags[RF], cb, (void *)(intptr_t)RF);
		xadd(RF);
		if (write(31, "x", 1) != 1) FAIL("harness:write", "%s", strerror(errno));
	}
	one_loop();
	if (added[W0]) xdel(W0);
	one_loop();
	if (base->th_notify_fn) { if (base->th_notify_fn(base) != 0) FAIL(K("notify-failed"), "th_notify_fn failed"); }
	else FAIL(K("wakeup-lost"), "the base has no wake-up function any more (%s)", bk_in_child ? "child after event_reinit" : "parent");
	one_loop();
	/* left behind on purpose: must stay inside this process */
	raise(SIGUSR1);
	if (base->th_notify_fn) base->th_notify_fn(base);
}

/* second continuation (-P cont=1): empty the base completely, run it empty, then add
 * everything again — nothing of the pre-fork registration survives in either process */
static void continuation_b(void)
{
	one_loop();
	for (int e = 0; e < NPRE; e++) if (added[e]) xdel(e);
	raise(SIGUSR1);                       /* no event: goes to the application's handler in this process */
	one_loop();
	for (int e = 0; e < NPRE - 2; e++) xadd(e);      /* R0 R1 W0 T0 S0 */
	if (IS_EPOLL) { xadd(EX); xadd(CL); }
	one_loop();
	vclock_advance(5000); raise(SIGUSR1); event_active(&ev[R1], EV_READ, 1);
	one_loop();
	xdel(T0); xdel(W0); vclock_advance(5000);
	one_loop();
	if (base->th_notify_fn) { if (base->th_notify_fn(base) != 0) FAIL(K("notify-failed"), "th_notify_fn failed"); }
	else FAIL(K("wakeup-lost"), "the base has no wake-up function any more (%s)", bk_in_child ? "child after event_reinit" : "parent");
	raise(SIGUSR1);
	one_loop();
	xdel(S0);
	one_loop();
	xadd(S0);
	raise(SIGUSR1);
	if (base->th_notify_fn) base->th_notify_fn(base);
}

static void teardown(void)
{
	for (int e = 0; e < NEVT; e++) if (e != RF || rf_open) event_del(&ev[e]);
	event_base_free(base); base = NULL;
	if (rf_open) { close(30); close(31); rf_open = 0; }
	{
		sigset_t m; struct sigaction now;
		sigaction(SIGUSR1, NULL, &now);
		if (!bk_sigaction_equal(&now, &sa_user)) { FAIL(K("disposition-not-restored"), "SIGUSR1 disposition differs after event_base_free in the %s", bk_in_child ? "child" : "parent"); sigaction(SIGUSR1, &sa_user, NULL); }
		pthread_sigmask(SIG_SETMASK, NULL, &m);
		if (sigismember(&m, SIGUSR1) == 1) { FAIL(K("signal-left-blocked"), "SIGUSR1 still blocked after event_base_free in the %s", bk_in_child ? "child" : "parent"); sigemptyset(&m); sigaddset(&m, SIGUSR1); pthread_sigmask(SIG_UNBLOCK, &m, NULL); }
	}
	if (mcx_alloc_live() != live0) FAIL(K(bk_in_child ? "child-leak" : "leak"), "%ld library allocations left", mcx_alloc_live() - live0);
}

static void snapshot_parent(void)
{
	nreg_before = IS_EPOLL ? bk_epoll_registrations(bk_epfd(base), reg_before, 32) : 0;
	sigaction(SIGUSR1, NULL, &sig_before);
}
static void check_parent_untouched(void)
{
	struct bk_epreg now[32]; struct sigaction sn; struct pollfd p;
	MC_COUNT("c11_parent_isolation_checks");
	if (IS_EPOLL) {
		int n = bk_epoll_registrations(bk_epfd(base), now, 32), same = n == nreg_before;
		for (int i = 0; same && i < n; i++) {
			int found = 0;
			for (int j = 0; j < nreg_before; j++) if (now[i].fd == reg_before[j].fd && now[i].events == reg_before[j].events) found = 1;
			if (!found) same = 0;
		}
		if (!same) mc_fail(K("parent-registration-changed"), "the parent's epoll interest list changed while only the child was running (%d entries before, %d after)", nreg_before, n);
	}
	sigaction(SIGUSR1, NULL, &sn);
	if (!bk_sigaction_equal(&sn, &sig_before)) mc_fail(K("parent-disposition-changed"), "the parent's SIGUSR1 disposition changed while only the child was running");
	p.fd = base->th_notify_fd[0]; p.events = POLLIN; p.revents = 0;
	if (p.fd >= 0 && __real_poll(&p, 1, 0) > 0 && (p.revents & POLLIN)) mc_fail(K("wakeup-reached-parent"), "the parent's wake-up fd became readable while only the child was running");
}

/* fork; child: reinit, rest of the run, report, exit.  parent: collect, check isolation. */
static void fork_here(void)
{
	forked = 1;
	memcpy(prefork_log, logbuf, loglen); prefork_log[loglen] = 0;
	snapshot_parent();
	MC_COUNT("c11_forks");
	pid_t pid = bk_fork();
	if (pid == 0) {
		loglen = 0;
		if (event_reinit(base) != 0) FAIL(K("reinit-failed"), "event_reinit returned -1 (%s)", bk_last_warning);
		base->weakrand_seed.seed = 12345;
		return;              /* child continues; ends in child_finish() */
	}
	if (pid < 0) return;
	bk_collect(pid, child_log, sizeof child_log, K("child-crashed"));
	for (char *q = child_log; *q; q++) if (*q == '\n') *q = 0;
	check_parent_untouched();
	loglen = 0;
}
static void do_fork_in_callback(int self)
{
	if (fork_mode == 2)
		for (int e = 0; e < NPRE; e++) if (e != self && added[e]) { xdel(e); LOG("(del %s) ", ename[e]); break; }
	flush_tokens();
	LOG("FORK-in-%s ", ename[self]);
	fork_here();
}
static void close_fds(void);
static void child_finish(void) __attribute__((noreturn));
static void child_finish(void)
{
	teardown();
	close_fds();
	/* fd table: baseline + the report pipe */
	if (mcx_fd_signature() != fd0 + mc_hash_u64(0x1234, (uint64_t)bk_child_pipe)) FAIL(K("child-fd-leak"), "child's fd table differs from baseline after teardown");
	logbuf[loglen] = 0;
	bk_cappend(logbuf); bk_cappend("\n");
	bk_child_exit();
}

static int open_fds(void)
{
	int p[2], sv[2];
	if (pipe2(p, O_NONBLOCK) < 0) return -1; bk_move_fd(p[1], 21); bk_move_fd(p[0], 20);
	if (socketpair(AF_UNIX, SOCK_STREAM | SOCK_NONBLOCK, 0, sv) < 0) return -1; bk_move_fd(sv[1], 71); bk_move_fd(sv[0], 70);
	if (pipe2(p, O_NONBLOCK) < 0) return -1; bk_move_fd(p[0], 25); bk_move_fd(p[1], 24);
	if (pipe2(p, O_NONBLOCK) < 0) return -1; bk_move_fd(p[1], 27); bk_move_fd(p[0], 26);
	if (write(21, "x", 1) != 1 || write(27, "x", 1) != 1) return -1;
	return 0;
}
static void close_fds(void) { static const int f[] = { 20, 21, 70, 71, 24, 25, 26, 27 }; for (unsigned i = 0; i < sizeof f / sizeof *f; i++) close(f[i]); }

static void body(void)
{
	int D = mc_param("depth", 2);
	BK = mc_param("backend", 0); SIGFD = mc_param("sigfd", 0); IS_EPOLL = BK == BK_EPOLL || BK == BK_EPOLL_CL;
	vclock_reset(); vclock_prewait_hook = prewait; vclock_idle_hook = NULL;
	bk_warnings = 0; bk_last_warning[0] = 0; bk_in_child = 0;
	memset(added, 0, sizeof added); loglen = 0; nitok = 0; fork_armed = forked = n_cb_total = rf_open = 0; child_log[0] = 0;
	sigaction(SIGUSR1, &sa_user, NULL);
	base = bk_new_base(BK, SIGFD);
	if (!base) return;
	if (open_fds() < 0) { mc_fail("harness:open-fds", "%s", strerror(errno)); return; }
	for (int e = 0; e < NEVT; e++) event_assign(&ev[e], base, efd[e], eflags[e], cb, (void *)(intptr_t)e);
	const int npre = IS_EPOLL ? NPRE : NPRE - 2, n_ops = npre + 3;
	for (int step = 0; step < D; step++) {
		int op = mc_choose(n_ops + 1, 0, "pre-op");
		if (!op) break;
		op--;
		if (op < npre) { if (added[op]) { xdel(op); LOG("del(%s) ", ename[op]); } else { xadd(op); LOG("add(%s) ", ename[op]); } }
		else if (op == npre) { LOG("loop: "); one_loop(); }
		else if (op == npre + 1) { vclock_advance(5000); LOG("adv "); }
		else { event_active(&ev[R1], EV_READ, 1); LOG("activate(R1) "); }
		/* states are counted, not pruned: the interesting part of every execution is the fork */
		uint64_t h = mc_hash_u64(0xc11, ((uint64_t)BK << 4) | SIGFD);
		for (int e = 0; e < NPRE; e++) h = mc_hash_u64(h, (uint64_t)added[e]);
		h = mc_hash_u64(h, (uint64_t)vclock_us); h = mc_hash_u64(h, (uint64_t)event_pending(&ev[R1], EV_READ, NULL) + 2 * (uint64_t)(ev[R1].ev_flags & EVLIST_ACTIVE ? 1 : 0));
		{ int fds[] = { 20, 70, 24, 26 }; h = mc_hash_u64(h, bk_impl_digest(base, BK, fds, 4)); }
		(void)mc_state(h, D - 1 - step);
	}
	fork_mode = mc_choose(3, 0, "fork-point");
	if (!mc_failed()) {
		if (fork_mode == 0) { LOG("FORK "); fork_here(); }
		else {
			fork_armed = 1; LOG("loop: ");
			one_loop();
			if (fork_armed) { fork_armed = 0; LOG("FORK-after-idle-loop "); fork_here(); }
		}
		if (mc_param("cont", 0)) continuation_b(); else continuation();
		if (bk_in_child) child_finish();
		logbuf[loglen] = 0;
		mc_observe("%s|| child: %s || parent: %s", prefork_log, child_log, logbuf);
		MC_COUNT("c11_logs_compared");
		if (strcmp(child_log, logbuf)) mc_fail(K("child-differs-from-parent"), "after fork+event_reinit the child's callbacks differ from the parent's. pre-fork: %s child: [%s] parent: [%s]", prefork_log, child_log, logbuf);
		if (n_cb_total == 0) mc_fail("harness:vacuous", "no callback ran at all");
	}
	teardown();
	close_fds();
	vclock_prewait_hook = NULL;
	if (mcx_fd_signature() != fd0) mc_fail(K("fd-table-changed"), "fd table differs from baseline after teardown");
}

static void init(void)
{
	bk_process_init();
	evthread_use_pthreads();
	memset(&sa_user, 0, sizeof sa_user); sa_user.sa_handler = user_handler; sa_user.sa_flags = SA_NODEFER; sigemptyset(&sa_user.sa_mask); sigaddset(&sa_user.sa_mask, SIGHUP);
	sigaction(SIGUSR1, &sa_user, NULL);
	{ struct sigaction ign; memset(&ign, 0, sizeof ign); ign.sa_handler = SIG_IGN; sigaction(SIGPIPE, &ign, NULL); }
	live0 = mcx_alloc_live(); fd0 = mcx_fd_signature();
}

int main(int argc, char **argv)
{
	struct mc_config cfg = { .property = "C11", .body = body, .init = init, .default_split = 1 };
	return mc_main(argc, argv, &cfg);
}
