/* C07 — signal events: every delivery is reported, nothing after del, and the
 * disposition that was installed before the first add is restored.
 *
 * -P backend=0..3 (epoll, epoll+changelist, poll, select)   -P sigfd=0|1 (self-pipe | signalfd)
 * -P fork=1 adds the terminal op FORK (and drops the arm ops to keep the number of real forks moderate).
 *
 * Events: e0, e1 on SIGUSR1 (persistent), e2 on SIGUSR2 (persistent), e3 on SIGUSR2 (one-shot).
 * Before every execution distinctive dispositions are installed (different handler,
 * flags and mask per signal).
 * ops:  toggle(e)  event_add / event_del
 *       raise(s)   real raise(): synchronous delivery in this thread
 *       arm(x)     the next signal callback that runs will: raise(SIGUSR1) | raise(SIGUSR2) |
 *                  event_del() its own event | event_del() every other event
 *       loop       event_base_loop(EVLOOP_NONBLOCK): runs until an iteration finds nothing active
 *       FORK       (terminal) fork; the child calls event_reinit(); then child and, after the
 *                  child has finished, the parent run the same closing script
 *       END        closing script
 * closing script: raise every signal that has an added event, loop, then either delete the
 * events one by one and free the base, or free the base with the events still added
 * (second choice point), checking dispositions after each step.
 *
 * Oracle (reference model = added flags + per-signal count of deliveries libevent has
 * caught and not yet consumed + per-event "delivery not yet reported" flag):
 *   - callback arguments are (signal number, EV_SIGNAL)
 *   - per loop, calls(e) <= deliveries of its signal that were pending or arrived during the loop
 *   - an event that was added when its signal was raised and stayed added gets >= 1 call by the
 *     end of the next loop
 *   - no call after event_del(e) returned (also from inside callbacks, also with calls still owed)
 *   - a raise with no event added for the signal runs the pre-installed handler (once, synchronously)
 *   - whenever no event is added for a signal (after the last del, after a one-shot fired, after
 *     event_base_free): sigaction(sig, NULL) equals the pre-installed one and the signal is not blocked */
#include "backend_common.h"

#define NE 4
static const struct { int sig; short ev; const char *name; } EV[NE] = {
	{ SIGUSR1, EV_SIGNAL | EV_PERSIST, "e0:USR1" }, { SIGUSR1, EV_SIGNAL | EV_PERSIST, "e1:USR1" },
	{ SIGUSR2, EV_SIGNAL | EV_PERSIST, "e2:USR2" }, { SIGUSR2, EV_SIGNAL, "e3:USR2-oneshot" } };
static const int SIGS[2] = { SIGUSR1, SIGUSR2 };
enum { ARM_NONE, ARM_RAISE1, ARM_RAISE2, ARM_DELSELF, ARM_DELOTHERS, ARM_N };
static const char *const arm_name[ARM_N] = { "-", "raise1", "raise2", "delself", "delothers" };

struct evm { struct event ev; int added, unreported, calls, oneshot_running; unsigned seq; };
static int BK, SIGFD, FORKOP;
static struct event_base *base;
static struct evm E[NE];
static int pending[2];       /* deliveries caught by libevent and not consumed by a loop yet */
static int avail[2];         /* upper bound for calls in the running loop */
static volatile int n_user[2];
static int armed, in_loop; static unsigned add_seq;
static struct sigaction sa_user[2];
static long live0; static uint64_t fd0;
static char keybuf[96];

static const char *K(const char *what) { snprintf(keybuf, sizeof keybuf, "C07/%s/%s", SIGFD ? "signalfd" : "self-pipe", what); return keybuf; }
static int sidx(int sig) { return sig == SIGUSR1 ? 0 : 1; }
static void user1(int sig) { (void)sig; n_user[0]++; }
static void user2(int sig) { (void)sig; n_user[1]++; }

static void OBS(const char *fmt, ...) __attribute__((format(printf, 1, 2)));
static void OBS(const char *fmt, ...)
{
	char b[200]; va_list ap; va_start(ap, fmt); vsnprintf(b, sizeof b, fmt, ap); va_end(ap);
	if (bk_in_child) bk_cappend(b); else mc_observe("%s", b);
}
#define FAIL bk_cfail

static int n_added(int s) { int n = 0; for (int e = 0; e < NE; e++) if (E[e].added && sidx(EV[e].sig) == s) n++; return n; }

static void check_dispositions(const char *where)
{
	sigset_t blocked; char a[160], b[160];
	pthread_sigmask(SIG_SETMASK, NULL, &blocked);
	for (int s = 0; s < 2; s++) {
		struct sigaction now;
		if (base && n_added(s)) continue;
		MC_COUNT("c07_disposition_checks");
		sigaction(SIGS[s], NULL, &now);
		if (!bk_sigaction_equal(&now, &sa_user[s])) {
			bk_sigaction_str(&now, a, sizeof a, (void *)user1, (void *)user2); bk_sigaction_str(&sa_user[s], b, sizeof b, (void *)user1, (void *)user2);
			FAIL(K("disposition-not-restored"), "%s: no event added for signal %d, sigaction is {%s}, the one installed before the first add was {%s}", where, SIGS[s], a, b);
			sigaction(SIGS[s], &sa_user[s], NULL);
		}
		if (sigismember(&blocked, SIGS[s]) == 1) {
			sigset_t m; sigemptyset(&m); sigaddset(&m, SIGS[s]);
			FAIL(K("signal-left-blocked"), "%s: no event added for signal %d but it is still blocked", where, SIGS[s]);
			pthread_sigmask(SIG_UNBLOCK, &m, NULL);
		}
	}
}

static void do_raise(int s)
{
	int caught = n_added(s) > 0, u0 = n_user[s];
	raise(SIGS[s]);
	if (caught) {
		MC_COUNT("c07_raise_while_added");
		pending[s]++; if (in_loop) avail[s]++;
		for (int e = 0; e < NE; e++) if (E[e].added && sidx(EV[e].sig) == s) E[e].unreported = 1;
	} else {
		MC_COUNT("c07_raise_while_not_added");
		if (n_user[s] != u0 + 1)
			FAIL(K("restored-handler-not-run"), "raise(%d) with no event added ran the pre-installed handler %d times", SIGS[s], n_user[s] - u0);
	}
}

static void model_del(int e) { E[e].added = 0; E[e].unreported = 0; E[e].oneshot_running = 0; }
static void do_del(int e, const char *where)
{
	int s = sidx(EV[e].sig), u0 = n_user[s];
	if (event_del(&E[e].ev) != 0) FAIL(K("del-failed"), "%s: event_del(%s) failed (%s)", where, EV[e].name, bk_last_warning);
	model_del(e);
	/* signalfd: a delivery that was still pending reaches the restored handler when the
	 * signal is unblocked.  self-pipe: the bytes stay in the pipe and are reported to
	 * whatever event is added for the signal when the loop next runs; they were real
	 * deliveries, so they keep counting towards the upper bound. */
	if (n_added(s) == 0 && SIGFD) pending[s] = 0;
	(void)u0;
}
static void do_add(int e)
{
	if (event_add(&E[e].ev, NULL) != 0) FAIL(K("add-failed"), "event_add(%s) failed (%s)", EV[e].name, bk_last_warning);
	E[e].added = 1; E[e].seq = ++add_seq; E[e].unreported = 0;
}

static void sig_cb(evutil_socket_t sig, short what, void *arg)
{
	int e = (int)(intptr_t)arg, s = sidx(EV[e].sig);
	MC_COUNT("c07_callbacks_checked");
	if (!in_loop) FAIL("harness:callback-outside-loop", "%s", EV[e].name);
	if (sig != EV[e].sig || what != EV_SIGNAL) FAIL(K("callback-args"), "%s called with (%d, %#x), expected (%d, EV_SIGNAL)", EV[e].name, (int)sig, what, EV[e].sig);
	if (!E[e].added && !E[e].oneshot_running) FAIL(K("callback-after-del"), "%s ran although it is not added (event_del returned earlier)", EV[e].name);
	E[e].calls++; E[e].unreported = 0;
	if (!(EV[e].ev & EV_PERSIST) && E[e].added) { E[e].added = 0; E[e].oneshot_running = 1; }
	if (armed) {
		int a = armed; armed = ARM_NONE;
		MC_COUNT("c07_armed_scripts_run");
		if (a == ARM_RAISE1) do_raise(0);
		else if (a == ARM_RAISE2) do_raise(1);
		else if (a == ARM_DELSELF) do_del(e, "in-callback");
		else for (int o = 0; o < NE; o++) if (o != e && E[o].added) do_del(o, "in-callback");
	}
}

static void do_loop(void)
{
	char buf[120]; int o = 0;
	for (int s = 0; s < 2; s++) avail[s] = pending[s];
	for (int e = 0; e < NE; e++) E[e].calls = 0;
	in_loop = 1;
	int r = event_base_loop(base, EVLOOP_NONBLOCK);
	in_loop = 0;
	if (r < 0) FAIL(K("loop-failed"), "event_base_loop returned %d (%s)", r, bk_last_warning);
	MC_COUNT("c07_loops");
	buf[0] = 0;
	for (int e = 0; e < NE; e++) {
		int s = sidx(EV[e].sig);
		if (E[e].calls) { MC_COUNT("c07_event_loops_with_calls"); o += snprintf(buf + o, sizeof buf - o, "e%d*%d ", e, E[e].calls); }
		if (E[e].calls > avail[s]) FAIL(K("more-calls-than-deliveries"), "%s was called %d times in one loop, only %d deliveries of signal %d were outstanding", EV[e].name, E[e].calls, avail[s], EV[e].sig);
		if (E[e].added && E[e].unreported) FAIL(K("delivery-not-reported"), "%s stayed added but its signal %d, raised while it was added, produced no callback by the end of the loop", EV[e].name, EV[e].sig);
		E[e].oneshot_running = 0; E[e].unreported = 0;
	}
	pending[0] = pending[1] = 0;
	OBS("loop[%s] ", buf);
}

/* closing script, run by END, and by both processes after FORK */
static void closing(int teardown_mode)
{
	for (int s = 0; s < 2; s++) if (n_added(s)) { do_raise(s); OBS("c:raise%d ", s + 1); }
	do_loop();
	check_dispositions("after closing loop");
	if (teardown_mode == 0) {
		for (int e = 0; e < NE; e++) if (E[e].added) { do_del(e, "closing"); check_dispositions("after event_del in closing script"); }
		for (int s = 0; s < 2; s++) do_raise(s);     /* must reach the restored handlers */
		event_base_free(base); base = NULL;
		OBS("c:del-all,free ");
	} else {
		event_base_free(base); base = NULL;
		for (int e = 0; e < NE; e++) model_del(e);
		OBS("c:free-with-events ");
	}
	check_dispositions("after event_base_free");
	for (int s = 0; s < 2; s++) do_raise(s);
	if (mcx_alloc_live() != live0) FAIL(K("leak"), "%ld library allocations left", mcx_alloc_live() - live0);
}

/* Canonical state: everything the model and libevent's signal code keep between ops:
 * per event added + rank in add order (evmap list order) + unreported flag, per signal
 * the outstanding deliveries, the armed script, and the monotone bits of evsig_info
 * (sh_old_max, ev_signal_added, sigmap size). */
static uint64_t canon(void)
{
	uint64_t h = mc_hash_u64(0xc07, ((uint64_t)BK << 8) | (SIGFD << 4) | FORKOP);
	for (int e = 0; e < NE; e++) {
		int rank = 0;
		if (E[e].added) for (int f = 0; f < NE; f++) if (E[f].added && EV[f].sig == EV[e].sig && E[f].seq < E[e].seq) rank++;
		h = mc_hash_u64(h, (E[e].added << 8) | (rank << 4) | E[e].unreported);
	}
	h = mc_hash_u64(h, ((uint64_t)pending[0] << 16) | (pending[1] << 8) | armed);
	h = mc_hash_u64(h, ((uint64_t)base->sig.sh_old_max << 16) | (base->sig.ev_signal_added << 8) | base->sigmap.nentries);
	return h;
}

static void body(void)
{
	int D = mc_param("depth", 5), pruned = 0, forked = 0;
	BK = mc_param("backend", 0); SIGFD = mc_param("sigfd", 0); FORKOP = mc_param("fork", 0);
	vclock_reset(); vclock_prewait_hook = NULL; vclock_idle_hook = NULL;
	bk_warnings = 0; bk_last_warning[0] = 0; bk_in_child = 0;
	memset(E, 0, sizeof E); pending[0] = pending[1] = 0; armed = 0; in_loop = 0; add_seq = 0; n_user[0] = n_user[1] = 0;
	for (int s = 0; s < 2; s++) sigaction(SIGS[s], &sa_user[s], NULL);
	base = bk_new_base(BK, SIGFD);
	if (!base) return;
	for (int e = 0; e < NE; e++) event_assign(&E[e].ev, base, EV[e].sig, EV[e].ev, sig_cb, (void *)(intptr_t)e);

	/* with FORK in the alphabet the in-callback scripts are left out: every pre-fork state costs two real forks */
	const int o_raise = NE, o_arm = o_raise + 2, o_loop = o_arm + (FORKOP ? 0 : 4), o_fork = o_loop + 1, n_ops = o_fork + (FORKOP ? 1 : 0);
	for (int step = 0; step < D; step++) {
		int op = mc_choose(n_ops + 1, 0, "op");
		if (!op) break;
		op--;
		if (op < o_raise) {
			if (E[op].added) { do_del(op, "op"); OBS("del(e%d) ", op); MC_COUNT("c07_op_del"); }
			else { do_add(op); OBS("add(e%d) ", op); MC_COUNT("c07_op_add"); }
		} else if (op < o_arm) { do_raise(op - o_raise); OBS("raise%d ", op - o_raise + 1); MC_COUNT("c07_op_raise"); }
		else if (op < o_loop) { armed = 1 + (op - o_arm); OBS("arm(%s) ", arm_name[armed]); MC_COUNT("c07_op_arm"); }
		else if (op == o_loop) { do_loop(); MC_COUNT("c07_op_loop"); }
		else { forked = 1; break; }
		check_dispositions("after op");
		if (mc_failed()) break;
		if (mc_state(canon(), D - 1 - step)) { pruned = 1; break; }
	}
	if (pruned || mc_failed()) {
		for (int e = 0; e < NE; e++) event_del(&E[e].ev);
		event_base_free(base); base = NULL;
	} else {
		int mode = mc_choose(2, 0, "teardown");
		if (forked) {
			MC_COUNT("c07_forks");
			OBS("FORK ");
			pid_t pid = bk_fork();
			if (pid == 0) {
				/* child: a fresh process as far as signals go: nothing pending, nothing outstanding */
				pending[0] = pending[1] = 0; for (int e = 0; e < NE; e++) E[e].unreported = 0;
				n_user[0] = n_user[1] = 0;
				if (event_reinit(base) != 0) FAIL(K("reinit-failed"), "event_reinit returned -1 (%s)", bk_last_warning);
				base->weakrand_seed.seed = 12345;
				OBS("child{ ");
				check_dispositions("in child after event_reinit");
				closing(mode);
				OBS("} ");
				bk_child_exit();
			} else if (pid > 0) {
				static char out[4096];
				bk_collect(pid, out, sizeof out, K("child-crashed"));
				for (char *p = out; *p; p++) if (*p == '\n') *p = ' ';
				mc_observe("%s", out);
			}
		}
		if (base) closing(mode);
	}
	for (int s = 0; s < 2; s++) {        /* leave the process clean whatever happened */
		sigset_t m; sigemptyset(&m); sigaddset(&m, SIGS[s]); pthread_sigmask(SIG_UNBLOCK, &m, NULL);
		sigaction(SIGS[s], &sa_user[s], NULL);
	}
	if (mcx_alloc_live() != live0) mc_fail(K("leak"), "%ld library allocations left", mcx_alloc_live() - live0);
	if (mcx_fd_signature() != fd0) mc_fail(K("fd-table-changed"), "fd table differs from baseline after teardown");
}

static void init(void)
{
	bk_process_init();
	memset(sa_user, 0, sizeof sa_user);
	sa_user[0].sa_handler = user1; sa_user[0].sa_flags = SA_NODEFER; sigemptyset(&sa_user[0].sa_mask); sigaddset(&sa_user[0].sa_mask, SIGHUP); sigaddset(&sa_user[0].sa_mask, SIGTERM);
	sa_user[1].sa_handler = user2; sa_user[1].sa_flags = SA_RESTART; sigemptyset(&sa_user[1].sa_mask); sigaddset(&sa_user[1].sa_mask, SIGINT);
	for (int s = 0; s < 2; s++) sigaction(SIGS[s], &sa_user[s], NULL);
	live0 = mcx_alloc_live(); fd0 = mcx_fd_signature();
}

int main(int argc, char **argv)
{
	struct mc_config cfg = { .property = "C07", .body = body, .init = init };
	return mc_main(argc, argv, &cfg);
}
