/* C04 — every backend reports exactly the ready I/O the caller asked for.
 *
 * One execution = one history over a real event_base of the chosen backend
 * (-P backend=0 epoll, 1 epoll+changelist, 2 poll, 3 select; -P sigfd=0|1 picks the
 * self-pipe or signalfd signal mechanism, one SIGUSR2 event is always added so that
 * libevent's internal notification fd sits in the kernel-facing set next to the user fds).
 *
 * fds:   primary slot at fd 20, kind chosen first: pipe read end / pipe write end /
 *        AF_UNIX stream socket / TCP loopback socket (/ AF_UNIX datagram / AF_UNIX seqpacket with -P kinds=6);   secondary slot: AF_UNIX at fd 70.
 * ops:   toggle one of 9 (7 without ET) events on the primary fd:
 *           R, W, R|W, R|CLOSED, CLOSED alone (persistent LT), one-shot R, K = persistent R whose callback
 *           event_del()s every other event on its fd, ET R, ET W (epoll only, never mixed with LT)
 *        environment on the primary fd (as far as the kind allows): peer writes a byte, drain,
 *           fill the send buffer, peer drains it, peer shutdown(SHUT_WR), peer close, RST
 *        reopen: del all events, close both ends, new pair of the same kind at the same fd
 *           numbers, add the same events again
 *        secondary fd: toggle R, toggle R|W, peer writes a byte, drain
 *        raise(SIGUSR2)
 *        wait = one loop iteration (EVLOOP_ONCE|EVLOOP_NONBLOCK)
 *        every history ends with two waits (LT must fire again, ET must not)
 *
 * Oracle: immediately before the backend's own wait (vclock_prewait_hook) every fd is
 * probed with an independent zero-timeout poll(2): read holds on IN|HUP|ERR, write on
 * OUT|HUP|ERR, closed on RDHUP|HUP.
 *   - a callback runs only for an event that is added, at most once per iteration, with
 *     flags != 0 and flags ⊆ requested ∩ holding (EV_ET may be echoed to ET events)
 *   - LT: an added event with requested ∩ holding ∩ backend-supported != 0 must run (for
 *     'closed' the obligation needs POLLRDHUP; a bare POLLHUP only permits EV_CLOSED)
 *     (unless another callback of the same iteration deleted it first)
 *   - ET: runs only if something happened on its fd since the previous wait (environment
 *     op or a registration change), and must run when the harness made one of its
 *     conditions go from not-holding to holding while it was added (and it still holds)
 *   - nothing runs after event_del (between iterations, or from K inside an iteration)
 *   - backends agree: the required/forbidden sets above are a function of the probe
 *     only, not of the backend, so every backend is held to the same callback set. */
#include "backend_digest.h"
#include <sys/ioctl.h>

enum { K_PIPE_R, K_PIPE_W, K_UNIX, K_TCP, K_UDGRAM, K_USEQ, K_N };   /* -P kinds=N offers the first N (default 4) */
static const char *const kind_name[K_N] = { "pipe-r", "pipe-w", "unix", "tcp", "unix-dgram", "unix-seqpacket" };
enum { E_WR, E_DRAIN, E_FILL, E_UNFILL, E_SHUT, E_CLOSE, E_RST, E_N };
static const char *const env_name[E_N] = { "wr", "drain", "fill", "unfill", "shut", "close", "rst" };
static const int env_of_kind[K_N][7] = {
	{ E_WR, E_DRAIN, E_CLOSE, -1 }, { E_FILL, E_UNFILL, E_CLOSE, -1 },
	{ E_WR, E_DRAIN, E_FILL, E_UNFILL, E_SHUT, E_CLOSE, -1 }, { E_WR, E_DRAIN, E_SHUT, E_CLOSE, E_RST, -1 },
	{ E_WR, E_DRAIN, E_FILL, E_UNFILL, E_SHUT, E_CLOSE, -1 }, { E_WR, E_DRAIN, E_FILL, E_UNFILL, E_SHUT, E_CLOSE, -1 } };

#define NT 9
static const struct { short ev; const char *name; int et, killer; } T[NT] = {
	{ EV_READ | EV_PERSIST, "R", 0, 0 }, { EV_WRITE | EV_PERSIST, "W", 0, 0 }, { EV_READ | EV_WRITE | EV_PERSIST, "RW", 0, 0 },
	{ EV_READ | EV_CLOSED | EV_PERSIST, "RC", 0, 0 }, { EV_CLOSED | EV_PERSIST, "C", 0, 0 }, { EV_READ, "R1", 0, 0 }, { EV_READ | EV_PERSIST, "K", 0, 1 },
	{ EV_READ | EV_ET | EV_PERSIST, "etR", 1, 0 }, { EV_WRITE | EV_ET | EV_PERSIST, "etW", 1, 0 } };
#define NSEC 2                      /* secondary slot: templates 0 (R) and 2 (RW) */
static const int sec_tmpl[NSEC] = { 0, 2 };   /* indices into T[] */

struct slot { int kind, fd, peer, peer_open, has_data, full, shut, activity; short holds, holds_must, revents; int act_at_wait; };
struct evm { struct event ev; int slot, tmpl, added, at_wait, fired, deleted_in_iter; unsigned seq; short pending_edge, flags; };

#define LISTEN_FD 90
static int BK, SIGFD, NTB, listen_port;
static struct event_base *base;
static struct slot S[2];
static struct evm E[NT + NSEC];
#define NEV (NT + NSEC)
static struct event sigev, sentinel;
static unsigned add_seq;
static int iter_open, n_waits, n_iters, ops_since_wait, sig_pending, n_sigcb, n_user_handler;
static long live0; static uint64_t fd0; static struct sigaction sa_user, sa_pipe;
static char keybuf[96];

static const char *K(const char *what) { snprintf(keybuf, sizeof keybuf, "C04/%s/%s", bk_name[BK], what); return keybuf; }
static void user_handler(int sig) { (void)sig; n_user_handler++; }

static void fl(short f, char *b) { sprintf(b, "%s%s%s%s", f & EV_READ ? "R" : "", f & EV_WRITE ? "W" : "", f & EV_CLOSED ? "C" : "", f & EV_ET ? "e" : ""); if (!*b) strcpy(b, "-"); }

/* ---- independent readiness probe --------------------------------------- */
/* may: what a callback is allowed to name (closed also on plain POLLHUP, DESIGN Appendix A);
 * must: what obliges a level-triggered event to run — for "closed" only POLLRDHUP, the
 * kernel's own early-close signal (a pipe that lost its writer says POLLHUP, never RDHUP). */
static short last_revents;
static short probe2(int fd, short *must)
{
	struct pollfd p = { fd, POLLIN | POLLOUT | POLLRDHUP, 0 }; short h = 0;
	if (must) *must = 0;
	last_revents = 0;
	if (__real_poll(&p, 1, 0) < 0) { mc_fail("harness:probe", "poll: %s", strerror(errno)); return 0; }
	if (p.revents & POLLNVAL) { mc_fail("harness:probe", "fd %d not open", fd); return 0; }
	last_revents = p.revents;
	if (p.revents & (POLLIN | POLLHUP | POLLERR)) h |= EV_READ;
	if (p.revents & (POLLOUT | POLLHUP | POLLERR)) h |= EV_WRITE;
	if (must) *must = h | ((p.revents & POLLRDHUP) ? EV_CLOSED : 0);
	if (p.revents & (POLLRDHUP | POLLHUP)) h |= EV_CLOSED;
	return h;
}
static short probe(int fd) { return probe2(fd, NULL); }
/* TCP loopback is the only asynchronous transport here: wait (real time, bounded)
 * until the expected poll bits show up, so that the probe and the backend's wait
 * look at a settled socket. */
static void settle(int fd, short bits)
{
	struct pollfd p = { fd, POLLIN | POLLOUT | POLLRDHUP, 0 };
	for (int i = 0; i < 200; i++) {
		p.revents = 0;
		__real_poll(&p, 1, 0);
		if (p.revents & bits) return;
		struct pollfd q = { fd, (short)(bits & (POLLIN | POLLRDHUP)), 0 };
		__real_poll(&q, 1, 10);
	}
	mc_fail("harness:settle", "fd %d never showed poll bits %#x", fd, bits);
}

/* ---- fds ----------------------------------------------------------------- */
static int open_slot(int i)
{
	struct slot *s = &S[i]; int a = -1, b = -1, fd = i ? 70 : 20, peer = fd + 1;
	if (s->kind == K_PIPE_R || s->kind == K_PIPE_W) {
		int p[2];
		if (pipe2(p, O_NONBLOCK) < 0) goto bad;
		if (s->kind == K_PIPE_R) { a = p[0]; b = p[1]; } else { a = p[1]; b = p[0]; }
	} else if (s->kind == K_UNIX || s->kind == K_UDGRAM || s->kind == K_USEQ) {
		int sv[2], ty = s->kind == K_UNIX ? SOCK_STREAM : s->kind == K_UDGRAM ? SOCK_DGRAM : SOCK_SEQPACKET;
		if (socketpair(AF_UNIX, ty | SOCK_NONBLOCK, 0, sv) < 0) goto bad;
		a = sv[0]; b = sv[1];
	} else {
		struct sockaddr_in sin; int one = 1;
		memset(&sin, 0, sizeof sin); sin.sin_family = AF_INET; sin.sin_addr.s_addr = htonl(INADDR_LOOPBACK); sin.sin_port = htons(listen_port);
		a = socket(AF_INET, SOCK_STREAM, 0);
		if (a < 0 || connect(a, (struct sockaddr *)&sin, sizeof sin) < 0) goto bad;
		b = accept(LISTEN_FD, NULL, NULL);
		if (b < 0) goto bad;
		setsockopt(a, IPPROTO_TCP, TCP_NODELAY, &one, sizeof one); setsockopt(b, IPPROTO_TCP, TCP_NODELAY, &one, sizeof one);
		fcntl(a, F_SETFL, fcntl(a, F_GETFL) | O_NONBLOCK); fcntl(b, F_SETFL, fcntl(b, F_GETFL) | O_NONBLOCK);
	}
	if (a == peer) { int c = dup(a); close(a); a = c; }
	if (bk_move_fd(b, peer) < 0 || bk_move_fd(a, fd) < 0) return -1;
	s->fd = fd; s->peer = peer; s->peer_open = 1; s->has_data = s->full = s->shut = 0;
	return 0;
bad:
	mc_fail("harness:open-slot", "%s: %s", kind_name[s->kind], strerror(errno));
	return -1;
}
static void close_slot(int i)
{
	if (S[i].kind == K_TCP) {
		/* abortive close: thousands of executions per second must not pile up TIME_WAIT sockets */
		struct linger l = { 1, 0 };
		setsockopt(S[i].fd, SOL_SOCKET, SO_LINGER, &l, sizeof l);
		if (S[i].peer_open) setsockopt(S[i].peer, SOL_SOCKET, SO_LINGER, &l, sizeof l);
	}
	close(S[i].fd); if (S[i].peer_open) close(S[i].peer); S[i].peer_open = 0;
}

/* ---- ET bookkeeping around environment ops --------------------------------- */
static void env_op(int i, int op)
{
	struct slot *s = &S[i]; static char junk[4096]; ssize_t r; int done = 1;
	short before = probe(s->fd);
	switch (op) {
	case E_WR:
		if (!s->peer_open || s->shut) { done = 0; break; }
		if (write(s->peer, "x", 1) != 1) { mc_fail("harness:env", "wr: %s", strerror(errno)); break; }
		s->has_data = 1;
		if (s->kind == K_TCP) settle(s->fd, POLLIN);
		break;
	case E_DRAIN:
		while ((r = read(s->fd, junk, sizeof junk)) > 0) ;
		s->has_data = 0;
		break;
	case E_FILL:
		if (!s->peer_open) { done = 0; break; }
		while ((r = write(s->fd, junk, sizeof junk)) > 0) ;
		s->full = 1;
		break;
	case E_UNFILL:
		if (!s->peer_open) { done = 0; break; }
		while ((r = read(s->peer, junk, sizeof junk)) > 0) ;
		s->full = 0;
		break;
	case E_SHUT:
		if (!s->peer_open || s->shut) { done = 0; break; }
		shutdown(s->peer, SHUT_WR); s->shut = 1;
		if (s->kind == K_TCP) settle(s->fd, POLLRDHUP);
		break;
	case E_CLOSE: case E_RST:
		if (!s->peer_open) { done = 0; break; }
		if (op == E_RST) { struct linger l = { 1, 0 }; setsockopt(s->peer, SOL_SOCKET, SO_LINGER, &l, sizeof l); }
		close(s->peer); s->peer_open = 0;
		if (s->kind == K_TCP) settle(s->fd, POLLRDHUP | POLLHUP | POLLERR);
		break;
	}
	if (!done) return;
	s->activity = 1;
	short after = probe(s->fd), rose = after & ~before;
	for (int e = 0; e < NEV; e++)
		if (E[e].added && E[e].slot == i && T[E[e].tmpl].et) E[e].pending_edge |= rose & T[E[e].tmpl].ev;
}

/* ---- model + callbacks ------------------------------------------------------ */
static void end_iteration(void)
{
	short supported = EV_READ | EV_WRITE | ((base->evsel->features & EV_FEATURE_EARLY_CLOSE) ? EV_CLOSED : 0);
	char a[8], b[8];
	if (!iter_open) return;
	iter_open = 0;
	for (int e = 0; e < NEV; e++) {
		struct evm *m = &E[e]; struct slot *s = &S[m->slot];
		short interest = T[m->tmpl].ev & (EV_READ | EV_WRITE | EV_CLOSED);
		if (!m->at_wait) continue;
		fl(interest, a); fl(s->holds, b);
		if (!T[m->tmpl].et) {
			MC_COUNT("c04_lt_event_iterations");
			if (interest & s->holds_must & supported) {
				MC_COUNT("c04_lt_must_fire");
				if (!m->fired && !m->deleted_in_iter) {
					/* key names the event and the class of the fd's state, so that one known case cannot hide another */
					char kk[64]; snprintf(kk, sizeof kk, "lt-not-reported/%s/%s", T[m->tmpl].name, s->revents & POLLERR ? "fd-in-error" : s->revents & POLLHUP ? "fd-hung-up" : "fd-ok");
					mc_fail(K(kk), "%s fd: event %s (wants %s) did not run although %s holds (poll revents %#x)", kind_name[s->kind], T[m->tmpl].name, a, b, (unsigned)s->revents);
				}
			}
		} else {
			MC_COUNT("c04_et_event_iterations");
			if (m->fired && !s->act_at_wait)
				mc_fail(K("et-reported-without-new-activity"), "%s fd: ET event %s ran again although nothing happened on its fd since the previous wait", kind_name[s->kind], T[m->tmpl].name);
			if (m->pending_edge & s->holds) {
				MC_COUNT("c04_et_must_fire");
				if (!m->fired && !m->deleted_in_iter)
					mc_fail(K("et-transition-missed"), "%s fd: ET event %s (wants %s) did not run after its condition newly became true (%s holds)", kind_name[s->kind], T[m->tmpl].name, a, b);
			}
			if (!m->fired) MC_COUNT("c04_et_quiet_iterations");
		}
		m->pending_edge = 0;
	}
}

static void prewait(int kind, void *a, long n, int64_t timeout_us)
{
	(void)kind; (void)a; (void)n; (void)timeout_us;
	end_iteration();
	n_waits++; n_iters++; ops_since_wait = 0; iter_open = 1;
	for (int i = 0; i < 2; i++) { S[i].holds = probe2(S[i].fd, &S[i].holds_must); S[i].revents = last_revents; S[i].act_at_wait = S[i].activity; S[i].activity = 0; }
	for (int e = 0; e < NEV; e++) { E[e].at_wait = E[e].added; E[e].fired = 0; E[e].deleted_in_iter = 0; E[e].flags = 0; }
	MC_COUNT("c04_waits_probed");
}

static void io_cb(evutil_socket_t fd, short what, void *arg)
{
	struct evm *m = arg; struct slot *s = &S[m->slot]; char a[8], b[8], c[8];
	short interest = T[m->tmpl].ev & (EV_READ | EV_WRITE | EV_CLOSED), cond = what & (EV_READ | EV_WRITE | EV_CLOSED);
	MC_COUNT("c04_callbacks_checked");
	fl(what, a); fl(interest, b); fl(s->holds, c);
	if (!iter_open) mc_fail("harness:callback-outside-iteration", "%s", T[m->tmpl].name);
	if (fd != s->fd) mc_fail(K("callback-wrong-fd"), "event %s on fd %d called with fd %d", T[m->tmpl].name, s->fd, (int)fd);
	if (m->deleted_in_iter) mc_fail(K("callback-after-del"), "%s fd: event %s ran after event_del() returned (deleted by another callback of the same iteration)", kind_name[s->kind], T[m->tmpl].name);
	else if (!m->at_wait || !m->added) mc_fail(K("callback-for-unadded-event"), "%s fd: event %s ran although it is not added", kind_name[s->kind], T[m->tmpl].name);
	if (m->fired) mc_fail(K("callback-twice"), "%s fd: event %s ran twice in one iteration", kind_name[s->kind], T[m->tmpl].name);
	if (what & ~(interest | (T[m->tmpl].et ? EV_ET : 0))) mc_fail(K("flags-not-requested"), "%s fd: event %s (wants %s) called with %s", kind_name[s->kind], T[m->tmpl].name, b, a);
	else if (!cond) mc_fail(K("flags-empty"), "%s fd: event %s called with %s", kind_name[s->kind], T[m->tmpl].name, a);
	else if (cond & ~s->holds) mc_fail(K("flags-not-holding"), "%s fd: event %s (wants %s) called with %s but only %s holds", kind_name[s->kind], T[m->tmpl].name, b, a, c);
	m->fired = 1; m->flags = what;
	if (!(T[m->tmpl].ev & EV_PERSIST)) { m->added = 0; s->activity = 1; }
	if (T[m->tmpl].killer) {
		for (int e = 0; e < NEV; e++)
			if (&E[e] != m && E[e].slot == m->slot && E[e].added) {
				event_del(&E[e].ev); E[e].added = 0; E[e].deleted_in_iter = 1; E[e].pending_edge = 0; s->activity = 1;
				MC_COUNT("c04_del_inside_iteration");
			}
	}
}
static void sig_cb(evutil_socket_t sig, short what, void *arg)
{
	(void)arg;
	n_sigcb++; sig_pending = 0;
	if (sig != SIGUSR2 || what != EV_SIGNAL) mc_fail(K("signal-callback-args"), "sig=%d what=%#x", (int)sig, what);
}
static void sentinel_cb(evutil_socket_t fd, short what, void *arg) { (void)fd; (void)what; (void)arg; }

static int any_added(int slot, int et) { for (int e = 0; e < NEV; e++) if (E[e].added && E[e].slot == slot && T[E[e].tmpl].et == et) return 1; return 0; }
static void do_add(struct evm *m)
{
	if (event_add(&m->ev, NULL) != 0) mc_fail(K("add-failed"), "event_add(%s) failed (%s)", T[m->tmpl].name, bk_last_warning);
	m->added = 1; m->seq = ++add_seq; m->pending_edge = 0; S[m->slot].activity = 1;
}
static void do_del(struct evm *m)
{
	if (event_del(&m->ev) != 0) mc_fail(K("del-failed"), "event_del(%s) failed (%s)", T[m->tmpl].name, bk_last_warning);
	m->added = 0; m->pending_edge = 0; S[m->slot].activity = 1;
}
static void toggle(struct evm *m)
{
	struct slot *s = &S[m->slot]; int t = m->tmpl;
	if (m->added) { do_del(m); mc_observe("del(%d,%s) ", s->fd, T[t].name); MC_COUNT("c04_op_del"); }
	else if (any_added(m->slot, !T[t].et)) { mc_observe("skip-mix "); MC_COUNT("c04_op_skipped"); }
	else if (s->kind == K_PIPE_R && (T[t].ev & EV_WRITE)) { mc_observe("skip-w-on-read-end "); MC_COUNT("c04_op_skipped"); }
	else { do_add(m); mc_observe("add(%d,%s) ", s->fd, T[t].name); MC_COUNT("c04_op_add"); }
}

static void one_wait(void)
{
	int r = event_base_loop(base, EVLOOP_ONCE | EVLOOP_NONBLOCK);
	end_iteration();
	if (r != 0) mc_fail(K("loop-failed"), "event_base_loop returned %d (%s)", r, bk_last_warning);
	char buf[160]; int o = 0; buf[0] = 0;
	for (int e = 0; e < NEV; e++) if (E[e].fired) { char f[8]; fl(E[e].flags, f); o += snprintf(buf + o, sizeof buf - o, "%s%d:%s", o ? "," : "", S[E[e].slot].fd, f); E[e].fired = 0; }
	mc_observe("wait[%s] ", buf);
}

/* Canonical state: kind and environment state of both fds (harness-tracked flags plus
 * the live probe), the model (per event: added, rank in add order = evmap list order,
 * pending ET edge), per-fd activity since the last wait, whether a signal is pending,
 * and the backend's bookkeeping digest (see backend_digest.h). */
static uint64_t canon(void)
{
	uint64_t h = mc_hash_u64(0xc04, ((uint64_t)BK << 8) | (uint64_t)SIGFD);
	int fds[2] = { S[0].fd, S[1].fd };
	for (int i = 0; i < 2; i++) {
		struct slot *s = &S[i];
		h = mc_hash_u64(h, ((uint64_t)s->kind << 20) | (s->peer_open << 16) | (s->has_data << 12) | (s->full << 8) | (s->shut << 4) | s->activity);
		h = mc_hash_u64(h, (uint64_t)probe(s->fd));
	}
	for (int e = 0; e < NEV; e++) {
		int rank = 0;
		if (E[e].added) for (int f = 0; f < NEV; f++) if (E[f].added && E[f].slot == E[e].slot && E[f].seq < E[e].seq) rank++;
		h = mc_hash_u64(h, ((uint64_t)E[e].added << 24) | ((uint64_t)rank << 16) | (unsigned short)E[e].pending_edge);
	}
	h = mc_hash_u64(h, (uint64_t)sig_pending);
	return mc_hash_u64(h, bk_impl_digest(base, BK, fds, 2));
}

static void body(void)
{
	int D = mc_param("depth", 3), pruned = 0;
	BK = mc_param("backend", 0); SIGFD = mc_param("sigfd", 0);
	NTB = (BK == BK_EPOLL || BK == BK_EPOLL_CL) ? NT : NT - 2;
	vclock_reset(); vclock_prewait_hook = prewait; vclock_idle_hook = NULL;
	bk_warnings = 0; bk_last_warning[0] = 0;
	iter_open = n_waits = n_iters = ops_since_wait = sig_pending = n_sigcb = n_user_handler = 0; add_seq = 0;
	memset(S, 0, sizeof S); memset(E, 0, sizeof E);

	int focus = mc_param("focus", 0), nkinds = mc_param("kinds", 4);
	if (nkinds > K_N) nkinds = K_N;
	/* -P focus=1: AF_UNIX only, ops {toggle ET R, toggle ET W, peer write, drain, wait}: a narrow slice that
	 * reaches depth-4 edge-trigger histories (two ET events on one fd, one deleted after a wait) in the quick tier */
	/* -P onlykind=k fixes the kind; -P lean=1 drops the secondary-fd ops and raise (deeper single-fd histories) */
	int onlykind = mc_param("onlykind", -1), lean = mc_param("lean", 0);
	int kind = focus ? K_UNIX : (onlykind >= 0 && onlykind < K_N) ? onlykind : mc_choose(nkinds, 0, "kind");
	mc_observe("%s: ", kind_name[kind]);
	S[0].kind = kind; S[1].kind = K_UNIX;
	base = bk_new_base(BK, SIGFD);
	if (!base) return;
	if (open_slot(0) < 0 || open_slot(1) < 0) { event_base_free(base); return; }
	for (int t = 0; t < NT; t++) { E[t].slot = 0; E[t].tmpl = t; event_assign(&E[t].ev, base, S[0].fd, T[t].ev, io_cb, &E[t]); }
	for (int t = 0; t < NSEC; t++) { struct evm *m = &E[NT + t]; m->slot = 1; m->tmpl = sec_tmpl[t]; event_assign(&m->ev, base, S[1].fd, T[m->tmpl].ev, io_cb, m); }
	event_assign(&sigev, base, SIGUSR2, EV_SIGNAL | EV_PERSIST, sig_cb, NULL);
	if (event_add(&sigev, NULL) != 0) mc_fail(K("signal-add-failed"), "%s", bk_last_warning);
	struct timeval far = { 100000, 0 };
	event_assign(&sentinel, base, -1, EV_PERSIST, sentinel_cb, NULL); event_add(&sentinel, &far);

	int nenv = 0; while (env_of_kind[kind][nenv] >= 0) nenv++;
	const int o_env = NTB, o_reopen = o_env + nenv, o_sec = o_reopen + 1, o_raise = o_sec + 4, o_wait = o_raise + 1, n_ops = o_wait + 1;
	for (int step = 0; step < D; step++) {
		int op;
		if (focus) {
			const int allowed[5] = { NT - 2, NT - 1, o_env + 0, o_env + 1, o_wait };
			op = mc_choose(5 + 1, 0, "op");
			if (!op) break;
			op = allowed[op - 1];
		} else if (lean) {
			/* toggles, environment ops, reopen, then wait */
			op = mc_choose(o_sec + 1 + 1, 0, "op");
			if (!op) break;
			op--;
			if (op == o_sec) op = o_wait;
		} else {
			op = mc_choose(n_ops + 1, 0, "op");
			if (!op) break;
			op--;
		}
		ops_since_wait++;
		if (op < o_env) toggle(&E[op]);
		else if (op < o_reopen) { int e = env_of_kind[kind][op - o_env]; env_op(0, e); mc_observe("%s ", env_name[e]); MC_COUNT("c04_op_env"); }
		else if (op == o_reopen) {
			int was[NT], n = 0;
			/* delete in list order, re-add in the original add order */
			for (unsigned q = 1; q <= add_seq; q++) for (int t = 0; t < NT; t++) if (E[t].added && E[t].seq == q) { was[n++] = t; }
			for (int j = 0; j < n; j++) do_del(&E[was[j]]);
			close_slot(0);
			if (open_slot(0) < 0) break;
			for (int j = 0; j < n; j++) do_add(&E[was[j]]);
			mc_observe("reopen "); MC_COUNT("c04_op_reopen");
		}
		else if (op < o_sec + 2) toggle(&E[NT + (op - o_sec)]);
		else if (op == o_sec + 2) { env_op(1, E_WR); mc_observe("wr2 "); MC_COUNT("c04_op_env"); }
		else if (op == o_sec + 3) { env_op(1, E_DRAIN); mc_observe("drain2 "); MC_COUNT("c04_op_env"); }
		else if (op == o_raise) { raise(SIGUSR2); sig_pending = 1; mc_observe("raise "); MC_COUNT("c04_op_raise"); }
		else { one_wait(); MC_COUNT("c04_op_wait"); }
		if (mc_failed()) break;
		if (mc_state(canon(), D - 1 - step)) { pruned = 1; break; }
	}
	if (!pruned && !mc_failed()) { one_wait(); one_wait(); }
	if (!pruned && !mc_failed() && n_user_handler) mc_fail(K("signal-reached-user-handler"), "SIGUSR2 ran the application's handler %d times while a signal event was added", n_user_handler);

	for (int e = 0; e < NEV; e++) event_del(&E[e].ev);
	event_del(&sigev); event_del(&sentinel);
	event_base_free(base); base = NULL;
	close_slot(0); close_slot(1);
	vclock_prewait_hook = NULL;
	{
		struct sigaction now; sigset_t blocked;
		sigaction(SIGUSR2, NULL, &now);
		if (!bk_sigaction_equal(&now, &sa_user)) { mc_fail(K("sigaction-not-restored"), "SIGUSR2 disposition differs after base free"); sigaction(SIGUSR2, &sa_user, NULL); }
		pthread_sigmask(SIG_SETMASK, NULL, &blocked);
		if (sigismember(&blocked, SIGUSR2)) { mc_fail(K("signal-left-blocked"), "SIGUSR2 still blocked after base free"); sigemptyset(&blocked); sigaddset(&blocked, SIGUSR2); pthread_sigmask(SIG_UNBLOCK, &blocked, NULL); }
	}
	if (mcx_alloc_live() != live0) mc_fail(K("leak"), "%ld library allocations left", mcx_alloc_live() - live0);
	if (mcx_fd_signature() != fd0) mc_fail(K("fd-table-changed"), "fd table differs from baseline after teardown");
}

static void init(void)
{
	struct sockaddr_in sin; socklen_t sl = sizeof sin; int l;
	bk_process_init();
	for (int fd = 20; fd <= 21; fd++) if (fcntl(fd, F_GETFD) != -1 || fcntl(fd + 50, F_GETFD) != -1 || fcntl(LISTEN_FD, F_GETFD) != -1) { fprintf(stderr, "c04: slot fd numbers are in use\n"); _exit(2); }
	memset(&sa_pipe, 0, sizeof sa_pipe); sa_pipe.sa_handler = SIG_IGN; sigaction(SIGPIPE, &sa_pipe, NULL);
	memset(&sa_user, 0, sizeof sa_user); sa_user.sa_handler = user_handler; sa_user.sa_flags = SA_NODEFER; sigemptyset(&sa_user.sa_mask); sigaddset(&sa_user.sa_mask, SIGHUP);
	sigaction(SIGUSR2, &sa_user, NULL);
	memset(&sin, 0, sizeof sin); sin.sin_family = AF_INET; sin.sin_addr.s_addr = htonl(INADDR_LOOPBACK);
	l = socket(AF_INET, SOCK_STREAM, 0);
	if (l < 0 || bind(l, (struct sockaddr *)&sin, sizeof sin) < 0 || listen(l, 8) < 0 || getsockname(l, (struct sockaddr *)&sin, &sl) < 0) { perror("c04: listener"); _exit(2); }
	listen_port = ntohs(sin.sin_port);
	if (dup2(l, LISTEN_FD) < 0) { perror("dup2"); _exit(2); }
	close(l);
	live0 = mcx_alloc_live(); fd0 = mcx_fd_signature();
}

int main(int argc, char **argv)
{
	struct mc_config cfg = { .property = "C04", .body = body, .init = init, .default_split = 2 };
	return mc_main(argc, argv, &cfg);
}
