/* bev — bounded exhaustive exploration of bufferevent histories (family bevA: C17 C18 C19).
 *
 * One binary, parameterised:
 *   -P type=pair|filter|filter2|sock|connect   (tls variants: see bev_tls.inc)
 *   -P filt=null|ident|xor|needmore            (filter kind for type=filter)
 *   -P opts=0|defer|defer_unlock               (bufferevent options; defer_unlock adds THREADSAFE + lock debugging)
 *   -P ops=<letters>                           (op groups in the alphabet, see build_alphabet)
 *   -P depth=N                                 (history length)
 *   -P prop=17|18|19                           (only used for the property name in keys' evidence; all monitors always run)
 *
 * Every execution: fresh event_base (virtual clock), two application ends A (0) and B (1) connected
 * through the chosen transport, a history of D operations chosen by mc_choose, monitors for
 *   C17 stream integrity  (content of every input buffer == reference pattern at the model offset,
 *                          conservation of bytes along the whole path, EOF only after all data)
 *   C18 watermarks        (low read mark at readcb entry, high read mark growth rule, resume after
 *                          drain, writecb thresholds, filter respects underlying write high mark)
 *   C19 lifecycle         (event log automaton, callbacks after free / clear, deferred order)
 * then a final drain, teardown and hygiene (allocations, fds).
 * Readings of the property texts that the oracles implement are pinned down in notes/bevA.md.
 */
#include "event2/event-config.h"
#include "evconfig-private.h"
#include <sys/types.h>
#include <sys/socket.h>
#include <sys/ioctl.h>
#include <sys/un.h>
#include <netinet/in.h>
#include <arpa/inet.h>
#include <signal.h>
#include <stdio.h>
#include <stdlib.h>
#include <string.h>
#include <unistd.h>
#include <errno.h>
#include <fcntl.h>
#include <poll.h>

#include "event2/util.h"
#include "event2/event.h"
#include "event2/buffer.h"
#include "event2/buffer_compat.h"
#include "event2/bufferevent.h"
#include "event2/bufferevent_struct.h"
#include "event2/thread.h"
#include "event-internal.h"
#include "evthread-internal.h"
#include "bufferevent-internal.h"
#include "evbuffer-internal.h"
#include "util-internal.h"

#include "mcx.h"
#include "vclock.h"

/* ------------------------------------------------------------------ configuration */
enum { T_PAIR, T_FILTER, T_FILTER2, T_SOCK, T_CONNECT, T_TLS };
enum { F_NULL, F_IDENT, F_XOR, F_NEEDMORE };
static int g_type, g_filt, g_opts, g_depth, g_tls;     /* g_tls: 0 none, 1 openssl, 2 mbedtls */
static const char *g_tname = "pair";
static int g_final = 1, g_big = 60000;
static int g_finalraise;   /* -P finalraise=1: the final drain RAISES non-zero read high marks (to 1 MiB) instead of clearing them */
static int g_bpol = 0, g_bwm = 0;      /* initial reader policy and high read mark of end B (-P bpol=, -P bwm=): shortens histories */

#define PATLEN (1u << 20)
static unsigned char *pat[2];           /* pat[e][i] = byte i of the stream that arrives AT end e */
static unsigned char scratch[1 << 17];
static unsigned char fscratch[2048];    /* filters run re-entrantly inside bufferevent_read(): own buffer */

/* ------------------------------------------------------------------ per-execution state */
#define MAXSTACK 3
struct endctx {
	int id;
	struct bufferevent *bev;              /* application-facing bufferevent */
	struct bufferevent *stack[MAXSTACK];  /* stack[0] = bev, then its underlying chain */
	int nstack;
	void *addr[MAXSTACK];                 /* addresses only (never dereferenced after free): canon() */
	int fd;                               /* sock: our fd (owned by the bufferevent) */
	int freed, cleared;
	int policy;                           /* reader policy, see P_* */
	/* C17 model */
	size_t wr_total;                      /* bytes the application wrote at this end */
	size_t rd_total;                      /* bytes the application consumed at this end */
	int wr_closed;                        /* application finished writing at this end (FINISHED flush / SHUT_WR) */
	size_t closed_at;                     /* bytes of this end's stream that count as "written before the shutdown" */
	int rd_finished_flush;                /* this end did flush(EV_READ, FINISHED) */
	int did_rflush;                       /* this end did flush(EV_READ, FLUSH|FINISHED) on a filter */
	int conserve_off;                     /* stop the conservation check for the stream arriving here */
	size_t arrived_at_eof; int eof_seen; char eof_stuck[48];  /* where undelivered bytes were when EOF came */
	/* C18 */
	size_t prev_in_len; int hw_forced;
	size_t prev_uout_len; int uw_forced;  /* underlying output vs its high write mark */
	size_t rd_low_floor;                  /* smallest low read mark in effect while a readcb may have been pending */
	size_t wr_low_ceil;                   /* largest low write mark in effect while a writecb may have been pending */
	int wr_forgive;                       /* app added output while a writecb was pending */
	size_t prev_out_len; size_t prev_wr_total;
	int wcb_due;                          /* a write-out left output <= low and no writecb has run since */
	int was_blocked;                      /* input was observed at/above a non-zero high read mark and nothing has arrived since */
	int resume_due;                       /* the app drained below the high mark: reading has to resume */
	size_t resume_arrived;
	/* C19 */
	int n_connected, n_readcb, n_writecb, n_eventcb;
	int n_eof_r, n_eof_w, n_err_r, n_err_w, n_err_plain;
	const char *since_eof;                /* last application action on this end since the last EOF|READING (key tag) */
	int ls_rd_pending, ls_wr_pending, ls_ev_pending, ls_seen_r, ls_seen_w, ls_seen_e;   /* deferred-order oracle, see one_loop() */
	int cbs_before_connected;
};
static struct endctx E[2];                /* arena: never freed, so a late callback is detected without ASan */
static struct event_base *base;
static int loop_cbs, loop_broke, in_loop;
static int listener_fd = -1, listener_port, refused_port, accepted_fd = -1;
static int connect_state;                 /* 0 none, 1 started ok-target, 2 started refused-target */

enum { P_ALL, P_ONE, P_LEAVE, P_FREE_SELF_RD, P_FREE_PEER_RD, P_FREE_SELF_EV, P_FREE_SELF_WR, P_CLEAR_SELF_RD, P_NPOL };
static const char *polname[] = { "all", "one", "leave", "freeself@rd", "freepeer@rd", "freeself@ev", "freeself@wr", "clearself@rd" };

#define KEY(buf, fmt, ...) char buf[160]; snprintf(buf, sizeof buf, fmt, __VA_ARGS__)
static int g_prop = 17;
/* every monitor runs in every check, but a check only reports the failures of its own property
 * (keys "C17/..", "C18/..", "C19/.."); hygiene, harness and crash keys are always reported */
#define mc_fail(key, ...) do { const char *k_ = (key); \
	if (k_[0] == 'C' && k_[1] == '1' && k_[3] == '/' && g_prop && (k_[2] - '0') + 10 != g_prop) { MC_COUNT("other_property_monitor_hits"); } \
	else (mc_fail)(k_, __VA_ARGS__); } while (0)

static const char *tname(void) { return g_tname; }

/* ------------------------------------------------------------------ helpers on buffers */
static size_t in_len(struct endctx *c) { return evbuffer_get_length(bufferevent_get_input(c->bev)); }
static size_t out_len(struct endctx *c) { return evbuffer_get_length(bufferevent_get_output(c->bev)); }

/* compare the whole content of buf with ref[0..len) without changing the chain layout */
static int buf_equals(struct evbuffer *buf, const unsigned char *ref, size_t *bad_at)
{
	struct evbuffer_iovec v[64];
	size_t len = evbuffer_get_length(buf), off = 0;
	struct evbuffer_ptr p;
	evbuffer_ptr_set(buf, &p, 0, EVBUFFER_PTR_SET);
	while (off < len) {
		int n = evbuffer_peek(buf, -1, &p, v, 64);
		if (n <= 0) break;
		if (n > 64) n = 64;
		size_t got = 0;
		for (int i = 0; i < n; i++) {
			if (memcmp(v[i].iov_base, ref + off + got, v[i].iov_len)) {
				const unsigned char *b = v[i].iov_base;
				for (size_t k = 0; k < v[i].iov_len; k++)
					if (b[k] != ref[off + got + k]) { *bad_at = off + got + k; return 0; }
			}
			got += v[i].iov_len;
		}
		off += got;
		if (off < len && evbuffer_ptr_set(buf, &p, got, EVBUFFER_PTR_ADD) < 0) break;
	}
	if (off != len) { *bad_at = off; return 0; }
	return 1;
}

/* fd-table signature without opendir (mcx_fd_signature costs ~5 ms under ASan: 32 KiB malloc per opendir) */
int __real_poll(struct pollfd *, nfds_t, int);
static uint64_t fd_sig(void)
{
	static struct pollfd pf[64];
	uint64_t h = 0;
	for (int fd = 0; fd < 64; fd++) { pf[fd].fd = fd; pf[fd].events = 0; pf[fd].revents = 0; }
	__real_poll(pf, 64, 0);
	for (int fd = 0; fd < 64; fd++) if (!(pf[fd].revents & POLLNVAL)) h |= 1ull << fd;
	return h;
}

static int sock_inq(int fd) { int n = 0; if (fd < 0 || ioctl(fd, FIONREAD, &n) < 0) return 0; return n; }

/* ------------------------------------------------------------------ filters */
struct filtctx { int kind; int dir_in; struct endctx *owner; int level; };
static struct filtctx FC[8]; static int nfc;

static enum bufferevent_filter_result
filt_cb(struct evbuffer *src, struct evbuffer *dst, ev_ssize_t lim, enum bufferevent_flush_mode mode, void *arg)
{
	struct filtctx *f = arg;
	size_t avail = evbuffer_get_length(src), n = avail;
	if (lim == 0 || lim < -1) {
		KEY(k, "C18/filter-limit/%s", tname());
		mc_fail(k, "filter called with dst_limit=%ld (mode %d)", (long)lim, (int)mode);
		return BEV_ERROR;
	}
	if (!f->dir_in && mode == BEV_NORMAL && f->owner && !f->owner->freed && f->level + 1 < f->owner->nstack) {
		/* C18: in normal mode the limit handed to an output filter is what is left below the
		 * underlying bufferevent's high write mark */
		struct bufferevent *u = f->owner->stack[f->level + 1];
		size_t hi = u->wm_write.high, ul = evbuffer_get_length(u->output);
		MC_COUNT("c18_filter_limit_checked");
		if (hi && (ul >= hi || lim != (ev_ssize_t)(hi - ul))) {
			KEY(k, "C18/filter-limit/%s", tname());
			mc_fail(k, "output filter called with limit %ld, underlying output %zu, high write mark %zu", (long)lim, ul, hi);
		}
		if (!hi && lim != -1) {
			KEY(k, "C18/filter-limit/%s", tname());
			mc_fail(k, "output filter called with limit %ld without a high write mark", (long)lim);
		}
	}
	if (lim >= 0 && (size_t)lim < n) n = (size_t)lim;
	if (!avail) return BEV_NEED_MORE;
	switch (f->kind) {
	case F_IDENT:
		if (evbuffer_remove_buffer(src, dst, n) < 0) return BEV_ERROR;
		return BEV_OK;
	case F_NEEDMORE:
		if (f->dir_in && mode == BEV_NORMAL) {
			/* consumes whole pairs only (one byte when there is room for just one) */
			if (avail < 2) return BEV_NEED_MORE;
			if (n >= 2) n &= ~(size_t)1;
		}
		if (evbuffer_remove_buffer(src, dst, n) < 0) return BEV_ERROR;
		return BEV_OK;
	case F_XOR: {
		/* re-chunking: at most 7 bytes per call on short input, 1500 on long input */
		size_t chunk = avail < 64 ? 7 : 1500;
		/* BEV_FLUSH / BEV_FINISHED: "flush as much data as we can" = everything that is allowed */
		do {
			size_t k = n > chunk ? chunk : n;
			if (evbuffer_remove(src, fscratch, k) != (int)k) return BEV_ERROR;
			for (size_t i = 0; i < k; i++) fscratch[i] ^= 0x5a;
			if (evbuffer_add(dst, fscratch, k) < 0) return BEV_ERROR;
			n -= k;
		} while (mode != BEV_NORMAL && n);
		return BEV_OK;
	}
	}
	return BEV_ERROR;
}

/* ------------------------------------------------------------------ observation (C17 content, C18 growth) */
static struct endctx *peer_of(struct endctx *c) { return &E[1 - c->id]; }

/* where are the bytes of the stream into c that have not reached c's input yet?  (first non-empty buffer
 * seen from the receiver) — part of failure keys so that different causes get different keys */
static const char *stuck_where(struct endctx *c)
{
	struct endctx *p = peer_of(c);
	static char buf[48];
	for (int i = 1; i < c->nstack; i++) if (evbuffer_get_length(c->stack[i]->input)) {
		snprintf(buf, sizeof buf, "in-receiver-layer%d-input%s%s", i, c->did_rflush ? "+rflush" : "",
		    (bufferevent_get_enabled(c->bev) & EV_READ) ? "" : "+rd-disabled"); return buf; }
	if (g_type == T_SOCK && sock_inq(c->fd) > 0) return "in-kernel";
	if (p->freed) return "peer-freed";
	for (int i = p->nstack - 1; i >= 0; i--) if (evbuffer_get_length(p->stack[i]->output)) {
		snprintf(buf, sizeof buf, "in-sender-layer%d-output%s", i, (bufferevent_get_enabled(c->bev) & EV_READ) ? "" : "+rd-disabled"); return buf; }
	return "nowhere";
}

static void forget_writecb_tracking(struct endctx *c);

static void observe_end(struct endctx *c, const char *where)
{
	if (c->freed || !c->bev) return;
	struct evbuffer *in = bufferevent_get_input(c->bev);
	size_t len = evbuffer_get_length(in), bad = 0;
	/* C17: what is buffered is exactly the next bytes of the stream */
	MC_COUNT("c17_content_checks");
	if (c->rd_total + len > PATLEN) { mc_fail("harness:pattern-overflow", "stream longer than pattern"); return; }
	if (c->rd_total + len > peer_of(c)->wr_total) {
		KEY(k, "C17/duplicate-or-invented/%s", tname());
		mc_fail(k, "%s: end %d has received %zu bytes but only %zu were written", where, c->id, c->rd_total + len, peer_of(c)->wr_total);
	} else if (!buf_equals(in, pat[c->id] + c->rd_total, &bad)) {
		KEY(k, "C17/content/%s", tname());
		mc_fail(k, "%s: end %d input differs from the written stream at stream offset %zu (buffer offset %zu, len %zu)",
		    where, c->id, c->rd_total + bad, bad, len);
	}
	if (c->eof_seen && c->rd_total + len > c->arrived_at_eof ) {
		KEY(k, "C19/data-after-eof/%s/%s", tname(), c->eof_stuck);
		mc_fail(k, "%s: end %d received %zu more bytes after EOF was reported", where, c->id, c->rd_total + len - c->arrived_at_eof);
		c->arrived_at_eof = c->rd_total + len;
	}
	/* C18: the input does not grow past a non-zero high read mark (except by a forced flush) */
	size_t lo = 0, hi = 0;
	bufferevent_getwatermark(c->bev, EV_READ, &lo, &hi);
	if (hi && !g_tls) {
		MC_COUNT("c18_high_checked");
		if (len > hi && len > c->prev_in_len && !c->hw_forced) {
			KEY(k, "C18/high-exceeded/%s", tname());
			mc_fail(k, "%s: end %d input grew from %zu to %zu past high read mark %zu", where, c->id, c->prev_in_len, len, hi);
		}
	}
	if (!hi || len <= hi) c->hw_forced = 0;
	if (len > c->prev_in_len) c->was_blocked = 0;            /* something arrived */
	if (hi && len >= hi) c->was_blocked = 1;
	c->prev_in_len = len;
	/* C18: a filter does not push its underlying output past the underlying high write mark */
	if (c->nstack > 1 && BEV_IS_FILTER(c->bev)) {
		struct bufferevent *u = c->stack[1];
		size_t ul = evbuffer_get_length(u->output), uh = u->wm_write.high;
		if (uh) {
			MC_COUNT("c18_underlying_high_checked");
			if (ul > uh && ul > c->prev_uout_len && !c->uw_forced) {
				KEY(k, "C18/underlying-high-exceeded/%s", tname());
				mc_fail(k, "%s: end %d underlying output grew from %zu to %zu past high write mark %zu", where, c->id, c->prev_uout_len, ul, uh);
			}
		}
		if (!uh || ul <= uh) c->uw_forced = 0;
		c->prev_uout_len = ul;
	}
	/* C18: bookkeeping for "writecb runs when the output drops to or below the low write mark" */
	{
		size_t ol = out_len(c), wl = 0, wh = 0;
		bufferevent_getwatermark(c->bev, EV_WRITE, &wl, &wh);
		/* bytes that left the output since the last observation */
		size_t left_before = c->prev_wr_total - c->prev_out_len, left_now = c->wr_total - ol;
		if (left_now > left_before && ol <= wl) c->wcb_due = 1;
		c->prev_out_len = ol; c->prev_wr_total = c->wr_total;
	}
}

/* bytes in flight on the path peer -> c (everything written by the peer and not yet consumed by c) */
static int path_bytes(struct endctx *c, size_t *sum)
{
	struct endctx *p = peer_of(c);
	size_t s = 0;
	if (c->freed || p->freed) return 0;
	for (int i = 0; i < p->nstack; i++) s += evbuffer_get_length(p->stack[i]->output);
	for (int i = c->nstack - 1; i >= 0; i--) s += evbuffer_get_length(c->stack[i]->input);
	if (g_type == T_SOCK) s += sock_inq(c->fd);
	*sum = s;
	return 1;
}

static void observe_all(const char *where)
{
	for (int e = 0; e < 2; e++) observe_end(&E[e], where);
	if (g_type == T_CONNECT || g_tls) return;
	for (int e = 0; e < 2; e++) {
		struct endctx *c = &E[e]; size_t s;
		if (c->conserve_off || !path_bytes(c, &s)) continue;
		MC_COUNT("c17_conservation_checks");
		if (peer_of(c)->wr_total != c->rd_total + s) {
			KEY(k, "C17/conservation/%s", tname());
			mc_fail(k, "%s: stream into end %d: written %zu != consumed %zu + in flight %zu", where, c->id,
			    peer_of(c)->wr_total, c->rd_total, s);
			c->conserve_off = 1;
		}
	}
}

/* ------------------------------------------------------------------ freeing */
static void free_end(struct endctx *c)
{
	if (c->freed) return;
	if (in_loop) MC_COUNT("c19_free_inside_callback"); else MC_COUNT("c19_free_outside_callback");
	c->freed = 1;
	c->conserve_off = 1; peer_of(c)->conserve_off = 1;
	struct bufferevent *b = c->bev;
	c->bev = NULL;
	bufferevent_free(b);
}

/* ------------------------------------------------------------------ user callbacks */
static int cb_guard(struct endctx *c, struct bufferevent *bev, const char *which)
{
	if (++loop_cbs > 24 && in_loop && !loop_broke) { loop_broke = 1; event_base_loopbreak(base); MC_COUNT("loop_budget_breaks"); }
	if (c->freed) {
		KEY(k, "C19/callback-after-free/%s/%s", tname(), which);
		mc_fail(k, "%s callback for end %d after bufferevent_free", which, c->id);
		return 0;
	}
	if (c->cleared) {
		KEY(k, "C19/callback-after-clear/%s/%s", tname(), which);
		mc_fail(k, "%s callback for end %d after bufferevent_setcb(NULL...)", which, c->id);
		return 0;
	}
	if (bev != c->bev) { mc_fail("harness:wrong-bev", "callback with foreign bufferevent"); return 0; }
	return 1;
}

static void readcb(struct bufferevent *bev, void *arg)
{
	struct endctx *c = arg;
	if (!cb_guard(c, bev, "read")) return;
	c->n_readcb++;
	MC_COUNT("cb_read");
	if (in_loop && (c->ls_ev_pending & BEV_EVENT_CONNECTED) && !c->ls_seen_e && !c->ls_seen_r && !c->ls_seen_w) {
		KEY(k, "C19/order/read-before-connected/%s", tname()); mc_fail(k, "end %d: read callback ran before the pending CONNECTED event", c->id); }
	c->ls_seen_r = 1;
	if (((g_type == T_CONNECT && connect_state) || g_tls) && !c->n_connected) c->cbs_before_connected++;
	observe_all("readcb");
	size_t len = in_len(c), lo = 0, hi = 0;
	bufferevent_getwatermark(bev, EV_READ, &lo, &hi);
	/* C18: at least the low read mark is buffered.  rd_low_floor is the smallest low mark that was in
	 * effect since a readcb may have been scheduled (deferred callbacks are checked against the mark
	 * at the time the condition arose, see notes). */
	MC_COUNT("c18_low_checked");
	size_t need = c->rd_low_floor < lo ? c->rd_low_floor : lo;
	if (len < need) {
		KEY(k, "C18/readcb-below-low/%s", tname());
		mc_fail(k, "end %d: read callback with %zu bytes buffered, low read mark %zu", c->id, len, need);
	}
	c->rd_low_floor = lo;
	mc_observe("[r%d:%zu]", c->id, len);
	size_t take = 0;
	switch (c->policy) {
	case P_ALL: take = len; break;
	case P_ONE: take = len ? 1 : 0; break;
	case P_LEAVE: take = 0; break;
	case P_FREE_SELF_RD: free_end(c); return;
	case P_CLEAR_SELF_RD:
		/* bufferevent_setcb(NULL...) from the first callback of a (deferred) batch: nothing may follow */
		bufferevent_setcb(bev, NULL, NULL, NULL, NULL); c->cleared = 1; MC_COUNT("c19_clear_inside_callback"); return;
	case P_FREE_PEER_RD: take = len; break;
	default: take = len; break;
	}
	/* The application "reads" = copies out, checks, then drains.  The stream position is advanced BEFORE the
	 * drain because draining can re-enter this callback (non-deferred filter with a high read mark:
	 * drain -> inbuf_cb -> be_filter_read_nolock_ -> readcb). */
	while (take) {
		static unsigned char rdbuf[1 << 16];
		size_t n = take > sizeof rdbuf ? sizeof rdbuf : take, have = in_len(c);
		if (n > have) n = have;
		if (!n) break;
		if (evbuffer_copyout(bufferevent_get_input(bev), rdbuf, n) != (ev_ssize_t)n) { KEY(k, "C17/short-remove/%s", tname()); mc_fail(k, "copyout of %zu failed", n); break; }
		if (memcmp(rdbuf, pat[c->id] + c->rd_total, n)) {
			KEY(k, "C17/content/%s", tname());
			mc_fail(k, "end %d: bytes read at stream offset %zu differ from what was written", c->id, c->rd_total);
		}
		c->rd_total += n; take -= n;
		if (c->prev_in_len >= n) c->prev_in_len -= n; else c->prev_in_len = 0;
		MC_COUNTN("c17_bytes_verified", n);
		if (evbuffer_drain(bufferevent_get_input(bev), n) < 0) { KEY(k, "C17/short-remove/%s", tname()); mc_fail(k, "drain of %zu failed", n); break; }
		if (c->freed) return;
	}
	if (c->policy != P_LEAVE) {
		/* after the application drained: C18 resume bookkeeping */
		size_t now = in_len(c);
		size_t lo2 = 0, hi2 = 0;
		if (!c->freed) bufferevent_getwatermark(bev, EV_READ, &lo2, &hi2);
		(void)hi;
		/* "reading resumes as soon as the application drains below it": the input was blocked by the mark
		 * (possibly changed or removed since) and the application has now drained below the current one */
		if (c->was_blocked && now < len && (!hi2 || now < hi2)) { c->resume_due = 1; c->resume_arrived = c->rd_total + now; c->was_blocked = 0; }
		c->prev_in_len = now < c->prev_in_len ? now : c->prev_in_len;
	}
	if (c->policy == P_FREE_PEER_RD) free_end(peer_of(c));
}

static void writecb(struct bufferevent *bev, void *arg)
{
	struct endctx *c = arg;
	if (!cb_guard(c, bev, "write")) return;
	c->n_writecb++;
	MC_COUNT("cb_write");
	if (in_loop && (c->ls_ev_pending & BEV_EVENT_CONNECTED) && !c->ls_seen_e && !c->ls_seen_r && !c->ls_seen_w) {
		KEY(k, "C19/order/write-before-connected/%s", tname()); mc_fail(k, "end %d: write callback ran before the pending CONNECTED event", c->id); }
	c->ls_seen_w = 1;
	if (((g_type == T_CONNECT && connect_state) || g_tls) && !c->n_connected) c->cbs_before_connected++;
	observe_all("writecb");
	size_t ol = out_len(c), wl = 0, wh = 0;
	bufferevent_getwatermark(bev, EV_WRITE, &wl, &wh);
	size_t lim = c->wr_low_ceil > wl ? c->wr_low_ceil : wl;
	if (!c->wr_forgive) {
		MC_COUNT("c18_writecb_checked");
		if (ol > lim) {
			KEY(k, "C18/writecb-above-low/%s", tname());
			mc_fail(k, "end %d: write callback with %zu bytes in the output, low write mark %zu", c->id, ol, lim);
		}
	}
	if (c->wcb_due) MC_COUNT("c18_writecb_due_satisfied");
	c->wr_forgive = 0; c->wr_low_ceil = wl; c->wcb_due = 0;
	mc_observe("[w%d:%zu]", c->id, ol);
	if (c->policy == P_FREE_SELF_WR) free_end(c);
}

static void eventcb(struct bufferevent *bev, short what, void *arg)
{
	struct endctx *c = arg;
	if (!cb_guard(c, bev, "event")) return;
	c->n_eventcb++;
	MC_COUNT("cb_event");
	if (in_loop && !c->ls_seen_e && (c->ls_ev_pending & ~BEV_EVENT_CONNECTED) && (what & (BEV_EVENT_EOF | BEV_EVENT_ERROR))) {
		MC_COUNT("c19_order_checked");
		if (c->ls_rd_pending && !c->ls_seen_r) { KEY(k, "C19/order/event-before-read/%s", tname());
			mc_fail(k, "end %d: event 0x%x delivered before the read callback that was pending together with it", c->id, what); }
		if (c->ls_wr_pending && !c->ls_seen_w) { KEY(k, "C19/order/event-before-write/%s", tname());
			mc_fail(k, "end %d: event 0x%x delivered before the write callback that was pending together with it", c->id, what); }
	}
	if (!(what == BEV_EVENT_CONNECTED)) c->ls_seen_e = 1;
	observe_all("eventcb");
	mc_observe("[e%d:%02x]", c->id, what & 0xff);
	struct endctx *p = peer_of(c);
	size_t len = in_len(c), lo = 0, hi = 0;
	bufferevent_getwatermark(bev, EV_READ, &lo, &hi);
	if (what & BEV_EVENT_TIMEOUT) { KEY(k, "C19/spurious-timeout/%s", tname()); mc_fail(k, "end %d: TIMEOUT event 0x%x without any timeout set", c->id, what); }
	if (what & BEV_EVENT_CONNECTED) {
		MC_COUNT("c19_connected_seen");
		if (!g_tls && (g_type != T_CONNECT || connect_state != 1)) { KEY(k, "C19/spurious-connected/%s", tname()); mc_fail(k, "end %d: CONNECTED (0x%x) without a successful connect", c->id, what); }
		if (++c->n_connected > 1) { KEY(k, "C19/connected-twice/%s", tname()); mc_fail(k, "end %d: CONNECTED reported %d times", c->id, c->n_connected); }
		if (c->cbs_before_connected) { KEY(k, "C19/connected-not-first/%s", tname()); mc_fail(k, "end %d: %d read/write callbacks before CONNECTED", c->id, c->cbs_before_connected); }
		if (c->n_eof_r || c->n_err_r || c->n_err_w || c->n_err_plain) { KEY(k, "C19/connected-not-first/%s", tname()); mc_fail(k, "end %d: CONNECTED after EOF/ERROR", c->id); }
	}
	if (what & BEV_EVENT_EOF) {
		MC_COUNT("c19_eof_seen");
		if (what & BEV_EVENT_READING) {
			if (++c->n_eof_r > 1) {
				/* C19 "EOF at most once per direction" and C17 "end-of-file ... at most once": same monitor, both keys */
				KEY(k, "C19/eof-twice/%s/after-%s", tname(), c->since_eof ? c->since_eof : "nothing");
				mc_fail(k, "end %d: EOF|READING reported %d times (application did not enable reading again in between)", c->id, c->n_eof_r);
				KEY(k2, "C17/eof-twice/%s/after-%s", tname(), c->since_eof ? c->since_eof : "nothing");
				mc_fail(k2, "end %d: EOF|READING reported %d times (application did not enable reading again in between)", c->id, c->n_eof_r); }
			c->since_eof = NULL;
			/* C17: EOF only after every byte written before the shutdown is delivered (buffered or consumed) */
			MC_COUNT("c17_eof_checked");
			if (!p->wr_closed && !p->freed) {
				KEY(k, "C17/spurious-eof/%s", tname()); mc_fail(k, "end %d: EOF|READING but the peer never finished writing", c->id);
			} else if (p->wr_closed && g_type == T_FILTER && g_filt == F_NEEDMORE && c->rd_total + len + 1 == p->closed_at &&
			    evbuffer_get_length(c->stack[1]->input) == 1) {
				/* the incomplete unit the NEED_MORE filter is (legitimately) holding back */
				MC_COUNT("c17_eof_needmore_tail");
			} else if (p->wr_closed && c->rd_total + len < p->closed_at) {
				KEY(k, "C17/eof-before-data/%s/%s", tname(), stuck_where(c));
				mc_fail(k, "end %d: EOF reported with %zu of %zu bytes delivered (consumed %zu + buffered %zu)", c->id,
				    c->rd_total + len, p->closed_at, c->rd_total, len);
			}
			c->eof_seen = 1; c->arrived_at_eof = c->rd_total + len;
			snprintf(c->eof_stuck, sizeof c->eof_stuck, "%s", stuck_where(c));
		}
		if (what & BEV_EVENT_WRITING) {
			if (++c->n_eof_w > 1) { KEY(k, "C19/eof-twice/%s", tname()); mc_fail(k, "end %d: EOF|WRITING reported %d times", c->id, c->n_eof_w); }
			if (!(g_type != T_SOCK && p->rd_finished_flush) && !(g_type == T_SOCK) && !g_tls) {
				KEY(k, "C17/spurious-eof/%s", tname()); mc_fail(k, "end %d: EOF|WRITING (0x%x) but the peer never finished reading", c->id, what);
			}
		}
		if (!(what & (BEV_EVENT_READING | BEV_EVENT_WRITING))) { KEY(k, "C19/eof-no-direction/%s", tname()); mc_fail(k, "end %d: EOF without direction 0x%x", c->id, what); }
	}
	if (what & BEV_EVENT_ERROR) {
		MC_COUNT("c19_error_seen");
		int legit = 0;
		if ((g_type == T_SOCK || g_tls) && (p->freed || p->wr_closed || c->wr_closed)) legit = 1;
		if (g_type == T_CONNECT) legit = 1;
		if (!legit) { KEY(k, "C17/spurious-error/%s", tname()); mc_fail(k, "end %d: ERROR event 0x%x (errno %d) on a healthy transport", c->id, what, EVUTIL_SOCKET_ERROR()); }
		if (what & BEV_EVENT_READING) { if (++c->n_err_r > 1) { KEY(k, "C19/error-twice/%s", tname()); mc_fail(k, "end %d: ERROR|READING %d times", c->id, c->n_err_r); KEY(k2, "C17/error-twice/%s", tname()); mc_fail(k2, "end %d: ERROR|READING %d times", c->id, c->n_err_r); } }
		else if (what & BEV_EVENT_WRITING) { if (++c->n_err_w > 1) { KEY(k, "C19/error-twice/%s", tname()); mc_fail(k, "end %d: ERROR|WRITING %d times", c->id, c->n_err_w); KEY(k2, "C17/error-twice/%s", tname()); mc_fail(k2, "end %d: ERROR|WRITING %d times", c->id, c->n_err_w); } }
		else { if (++c->n_err_plain > 1) { KEY(k, "C19/error-twice/%s", tname()); mc_fail(k, "end %d: ERROR (connect) %d times", c->id, c->n_err_plain); KEY(k2, "C17/error-twice/%s", tname()); mc_fail(k2, "end %d: ERROR (connect) %d times", c->id, c->n_err_plain); } }
		if (g_type == T_CONNECT && connect_state == 2 && c->n_connected) { KEY(k, "C19/connected-on-refusal/%s", tname()); mc_fail(k, "CONNECTED and ERROR on a refused connect"); }
	}
	if (c->policy == P_FREE_SELF_EV) free_end(c);
}

/* ------------------------------------------------------------------ construction */
static int bev_options(void)
{
	int o = BEV_OPT_CLOSE_ON_FREE;
	if (g_opts >= 1) o |= BEV_OPT_DEFER_CALLBACKS;
	if (g_opts >= 2) o |= BEV_OPT_UNLOCK_CALLBACKS | BEV_OPT_THREADSAFE;
	return o;
}

static enum bufferevent_filter_result filt_in(struct evbuffer *s, struct evbuffer *d, ev_ssize_t l, enum bufferevent_flush_mode m, void *a)
{ struct filtctx *f = a; return filt_cb(s, d, l, m, &f[0]); }
static enum bufferevent_filter_result filt_out(struct evbuffer *s, struct evbuffer *d, ev_ssize_t l, enum bufferevent_flush_mode m, void *a)
{ struct filtctx *f = a; return filt_cb(s, d, l, m, &f[1]); }

static struct bufferevent *mk_filter2(struct bufferevent *under, int kind, struct endctx *owner, int level)
{
	if (kind == F_NULL) return bufferevent_filter_new(under, NULL, NULL, bev_options(), NULL, NULL);
	struct filtctx *f = &FC[nfc]; nfc += 2;
	f[0].kind = f[1].kind = kind; f[0].dir_in = 1; f[1].dir_in = 0;
	f[0].owner = f[1].owner = owner; f[0].level = f[1].level = level;
	return bufferevent_filter_new(under, filt_in, filt_out, bev_options(), NULL, f);
}

#include "bev_tls.inc"

static void setup_end(struct endctx *c)
{
	c->bev = c->stack[0];
	for (int i = 0; i < c->nstack; i++) c->addr[i] = c->stack[i];
	bufferevent_setcb(c->bev, readcb, writecb, eventcb, c);
	if (g_type != T_CONNECT) bufferevent_enable(c->bev, EV_READ | EV_WRITE);
}

static int setup(void)
{
	memset(E, 0, sizeof E); nfc = 0;
	E[0].id = 0; E[1].id = 1; E[0].fd = E[1].fd = -1;
	loop_cbs = loop_broke = in_loop = 0; connect_state = 0; accepted_fd = -1;
	base = event_base_new();
	if (!base) { mc_fail("harness:no-base", "event_base_new failed"); return -1; }
	struct bufferevent *pr[2];
	switch (g_type) {
	case T_PAIR: case T_FILTER: case T_FILTER2: case T_TLS:
		if (bufferevent_pair_new(base, bev_options(), pr) < 0) { mc_fail("harness:no-pair", "pair_new"); return -1; }
		if (g_type == T_PAIR) {
			E[0].stack[0] = pr[0]; E[1].stack[0] = pr[1]; E[0].nstack = E[1].nstack = 1;
		} else if (g_type == T_FILTER) {
			for (int e = 0; e < 2; e++) {
				E[e].stack[1] = pr[e]; E[e].nstack = 2;
				E[e].stack[0] = mk_filter2(pr[e], g_filt, &E[e], 0);
			}
		} else if (g_type == T_FILTER2) {
			/* A = xor(ident(pair0)), B = xor(pair1) */
			E[0].stack[2] = pr[0]; E[0].nstack = 3;
			E[0].stack[1] = mk_filter2(pr[0], F_IDENT, &E[0], 1);
			E[0].stack[0] = mk_filter2(E[0].stack[1], F_XOR, &E[0], 0);
			E[1].stack[1] = pr[1]; E[1].nstack = 2;
			E[1].stack[0] = mk_filter2(pr[1], F_XOR, &E[1], 0);
		} else {
			if (tls_setup(pr) < 0) return -1;
		}
		break;
	case T_SOCK: {
		int sv[2];
		if (socketpair(AF_UNIX, SOCK_STREAM | SOCK_NONBLOCK, 0, sv) < 0) { mc_fail("harness:socketpair", "errno %d", errno); return -1; }
		for (int e = 0; e < 2; e++) {
			E[e].fd = sv[e];
			E[e].stack[0] = bufferevent_socket_new(base, sv[e], bev_options()); E[e].nstack = 1;
		}
		break; }
	case T_CONNECT:
		E[0].stack[0] = bufferevent_socket_new(base, -1, bev_options()); E[0].nstack = 1;
		E[1].freed = 1; E[1].conserve_off = 1; E[0].conserve_off = 1;
		break;
	}
	for (int e = 0; e < 2; e++) {
		if (E[e].freed) continue;
		for (int i = 0; i < E[e].nstack; i++) if (!E[e].stack[i]) { mc_fail("harness:construct", "bufferevent construction failed"); return -1; }
		setup_end(&E[e]);
	}
	if (!E[1].freed && g_type != T_CONNECT) {
		E[1].policy = g_bpol;
		if (g_bwm) bufferevent_setwatermark(E[1].bev, EV_READ, 0, g_bwm);
	}
	return 0;
}

/* ------------------------------------------------------------------ operations */
enum { OP_END, OP_WRITE, OP_ENABLE, OP_DISABLE, OP_POLICY, OP_FLUSH, OP_RWM, OP_WWM, OP_UWM, OP_FREE, OP_CLEAR, OP_LOOP,
       OP_SHUTWR, OP_CONNECT_OK, OP_CONNECT_REFUSED, OP_PEER_SEND, OP_PEER_CLOSE, OP_LOCKED_FREE };
struct op { int kind, end, a, b; };
static struct op OPS[160]; static int NOPS;
static void addop(int k, int e, int a, int b) { if (NOPS < 160) { OPS[NOPS].kind = k; OPS[NOPS].end = e; OPS[NOPS].a = a; OPS[NOPS].b = b; NOPS++; } }

static int wsizes_full[] = { 1, 3, 4096, 70000 };
static const int wsizes_small[] = { 1, 3 };
/* read watermark settings (low, high): zero, 1, n(=3), n+1, low>high */
static const int rwm_tab[][2] = { {0, 0}, {0, 1}, {0, 3}, {0, 4}, {2, 0}, {4, 3}, {3, 4}, {1, 1} };
static const int wwm_tab[] = { 0, 1, 3, 4096 };       /* low write mark on the application end */
static const int uwm_tab[] = { 0, 1, 4 };             /* high write mark on the bufferevent under a filter */

static void build_alphabet(const char *g)
{
	NOPS = 0;
	wsizes_full[3] = g_big;
	addop(OP_END, 0, 0, 0);
	addop(OP_LOOP, 0, 0, 0);
	int nends = g_type == T_CONNECT ? 1 : 2;
	for (const char *p = g; *p; p++) switch (*p) {
	case 'w': for (int e = 0; e < nends; e++) for (int i = 0; i < 4; i++) addop(OP_WRITE, e, wsizes_full[i], 0); break;
	case 'v': for (int e = 0; e < nends; e++) for (int i = 0; i < 2; i++) addop(OP_WRITE, e, wsizes_small[i], 0); break;
	case 'V': for (int i = 0; i < 2; i++) addop(OP_WRITE, 0, wsizes_small[i], 0); break;          /* A writes only */
	case 'W': for (int i = 0; i < 4; i++) addop(OP_WRITE, 0, wsizes_full[i], 0); break;           /* A writes only */
	case 'e': for (int e = 0; e < nends; e++) { addop(OP_DISABLE, e, EV_READ, 0); addop(OP_ENABLE, e, EV_READ, 0); addop(OP_DISABLE, e, EV_WRITE, 0); addop(OP_ENABLE, e, EV_WRITE, 0); } break;
	case 'E': addop(OP_DISABLE, 1, EV_READ, 0); addop(OP_ENABLE, 1, EV_READ, 0); addop(OP_DISABLE, 0, EV_WRITE, 0); addop(OP_ENABLE, 0, EV_WRITE, 0); break;
	case 'p': for (int e = 0; e < nends; e++) { addop(OP_POLICY, e, P_ONE, 0); addop(OP_POLICY, e, P_LEAVE, 0); addop(OP_POLICY, e, P_ALL, 0); } break;
	case 'P': addop(OP_POLICY, 1, P_ONE, 0); addop(OP_POLICY, 1, P_LEAVE, 0); addop(OP_POLICY, 1, P_ALL, 0); break;
	case 'f': for (int e = 0; e < nends; e++) for (int d = 0; d < 2; d++) for (int m = 1; m <= 2; m++) addop(OP_FLUSH, e, d ? EV_READ : EV_WRITE, m); break;
	case 'F': addop(OP_FLUSH, 0, EV_WRITE, BEV_FLUSH); addop(OP_FLUSH, 0, EV_WRITE, BEV_FINISHED); addop(OP_FLUSH, 1, EV_READ, BEV_FLUSH); break;
	case 'n': for (int e = 0; e < nends; e++) for (int d = 0; d < 2; d++) addop(OP_FLUSH, e, d ? EV_READ : EV_WRITE, BEV_NORMAL); break;
	case 'r': for (int e = 0; e < nends; e++) for (int i = 0; i < 4; i++) addop(OP_RWM, e, rwm_tab[i][0], rwm_tab[i][1]); break;
	case 'R': for (int e = 0; e < nends; e++) for (int i = 4; i < 8; i++) addop(OP_RWM, e, rwm_tab[i][0], rwm_tab[i][1]); break;
	case 'q': for (int i = 0; i < 8; i++) addop(OP_RWM, 1, rwm_tab[i][0], rwm_tab[i][1]); break;   /* B only, all settings */
	case 'Q': { static const int qi[] = { 1, 2, 4, 0 }; for (int i = 0; i < 4; i++) addop(OP_RWM, 1, rwm_tab[qi[i]][0], rwm_tab[qi[i]][1]); } break;
	case 'o': for (int e = 0; e < nends; e++) for (int i = 0; i < 4; i++) addop(OP_WWM, e, wwm_tab[i], 0); break;
	case 'O': for (int i = 0; i < 4; i++) addop(OP_WWM, 0, wwm_tab[i], 0); break;
	case 'u': for (int e = 0; e < nends; e++) for (int i = 0; i < 3; i++) addop(OP_UWM, e, uwm_tab[i], 0); break;
	case 'U': for (int i = 0; i < 3; i++) addop(OP_UWM, 0, uwm_tab[i], 0); break;
	case 'x': for (int e = 0; e < nends; e++) addop(OP_FREE, e, 0, 0); break;
	case 'X': for (int e = 0; e < nends; e++) { addop(OP_POLICY, e, P_FREE_SELF_RD, 0); addop(OP_POLICY, e, P_FREE_SELF_EV, 0); addop(OP_POLICY, e, P_FREE_SELF_WR, 0); if (nends == 2) addop(OP_POLICY, e, P_FREE_PEER_RD, 0); } break;
	case 'c': for (int e = 0; e < nends; e++) addop(OP_CLEAR, e, 0, 0); break;
	case 'Y': addop(OP_POLICY, nends - 1, P_CLEAR_SELF_RD, 0); break;                /* B (connect: A) clears its callbacks inside its read callback */
	case 'M': addop(OP_WRITE, 0, 3, 0); addop(OP_WRITE, 0, 4096, 0); break;
	case 's': if (g_type == T_SOCK || g_tls) for (int e = 0; e < 2; e++) addop(OP_SHUTWR, e, 0, 0); break;
	case 'S': if (g_type == T_SOCK || g_tls) addop(OP_SHUTWR, 0, 0, 0); break;
	case 'C': if (g_type == T_CONNECT) { addop(OP_CONNECT_OK, 0, 0, 0); addop(OP_CONNECT_REFUSED, 0, 0, 0); addop(OP_PEER_SEND, 0, 3, 0); addop(OP_PEER_CLOSE, 0, 0, 0); } break;
	case 'l': break;
	default: fprintf(stderr, "bev: unknown op group %c\n", *p); exit(2);
	}
}

static void forget_writecb_tracking(struct endctx *c) { c->wcb_due = 0; }

static void one_loop(void)
{
	loop_cbs = 0; loop_broke = 0; in_loop = 1;
	/* C19 deferred-order oracle: conditions that are already pending for one bufferevent when the loop step
	 * starts arose in the order data/drain ... EOF/error (an EOF or error ends the stream; CONNECTED starts
	 * it), so this step has to run CONNECTED first and the read and write callbacks before the event. */
	for (int e = 0; e < 2; e++) {
		struct endctx *c = &E[e];
		c->ls_rd_pending = c->ls_wr_pending = c->ls_ev_pending = c->ls_seen_r = c->ls_seen_w = c->ls_seen_e = 0;
		if (c->freed || c->cleared) continue;
		struct bufferevent_private *bp = BEV_UPCAST(c->bev);
		c->ls_rd_pending = bp->readcb_pending; c->ls_wr_pending = bp->writecb_pending; c->ls_ev_pending = bp->eventcb_pending;
	}
	event_base_loop(base, EVLOOP_NONBLOCK);
	in_loop = 0;
	if (g_type == T_CONNECT && accepted_fd < 0 && listener_fd >= 0) {
		int fd = accept4(listener_fd, NULL, NULL, SOCK_NONBLOCK);
		if (fd >= 0) accepted_fd = fd;
	}
}

/* C18 liveness checks, evaluated after a loop step (one extra iteration allowed: "same or next iteration") */
static int upstream_ready(struct endctx *c)
{
	struct endctx *p = peer_of(c);
	if (c->freed || c->cleared) return 0;
	if (!(bufferevent_get_enabled(c->bev) & EV_READ)) return 0;
	size_t lo, hi; bufferevent_getwatermark(c->bev, EV_READ, &lo, &hi);
	if (hi && in_len(c) >= hi) return 0;
	if (BEV_UPCAST(c->bev)->read_suspended & ~BEV_SUSPEND_WM) return 0;
	switch (g_type) {
	case T_PAIR:
		return !p->freed && (bufferevent_get_enabled(p->bev) & EV_WRITE) && out_len(p) > 0;
	case T_FILTER: case T_FILTER2: {
		size_t ul = evbuffer_get_length(c->stack[1]->input);
		if (g_type == T_FILTER && g_filt == F_NEEDMORE) return ul >= 2;
		return ul > 0; }
	case T_SOCK:
		return sock_inq(c->fd) > 0;
	}
	return 0;
}

static void liveness_checks(void)
{
	int again = 0;
	if (loop_broke) return;
	for (int e = 0; e < 2; e++) {
		struct endctx *c = &E[e];
		if (c->freed) continue;
		if (c->resume_due && upstream_ready(c) && c->rd_total + in_len(c) == c->resume_arrived) again = 1;
		if (c->wcb_due && !c->cleared) again = 1;
	}
	if (again) { one_loop(); observe_all("extra-loop"); if (loop_broke) return; }
	for (int e = 0; e < 2; e++) {
		struct endctx *c = &E[e];
		if (c->freed) continue;
		if (c->resume_due) {
			MC_COUNT("c18_resume_checked");
			if (upstream_ready(c)) MC_COUNT("c18_resume_checked_with_upstream_data");
			if (upstream_ready(c) && c->rd_total + in_len(c) == c->resume_arrived) {
				KEY(k, "C18/read-not-resumed/%s", tname());
				mc_fail(k, "end %d: drained below the high read mark, upstream has data, but nothing was read in two iterations", c->id);
			}
			c->resume_due = 0;
		}
		if (c->wcb_due && !c->cleared) {
			MC_COUNT("c18_writecb_due_checked");
			KEY(k, "C18/writecb-missing/%s", tname());
			mc_fail(k, "end %d: output dropped to %zu (<= low write mark) but no write callback ran", c->id, out_len(c));
			c->wcb_due = 0;
		}
	}
}

/* "at most once per direction" is read per enable period: a socket/TLS bufferevent whose reading is enabled
 * again by the application after EOF/error reads again and reports the condition again (documented
 * behaviour of bufferevent_readcb: the direction is disabled when the event is reported) */
static void app_enable(struct endctx *c, short what)
{
	if (what & EV_READ) { c->n_eof_r = 0; c->n_err_r = 0; }
	if (what & EV_WRITE) { c->n_eof_w = 0; c->n_err_w = 0; }
}

/* returns 0 if the op is not applicable in the current state (the history ends there) */
static int apply(const struct op *o)
{
	struct endctx *c = &E[o->end], *p = peer_of(c);
	static const char *opname[] = { "end", "write", "enable", "disable", "policy", "flush", "setwatermark", "setwatermark-write", "setwatermark-underlying",
	    "free", "setcb", "loop", "shutdown", "connect", "connect", "peer-send", "peer-close", "x" };
	if (o->kind != OP_LOOP && o->kind != OP_POLICY) c->since_eof = opname[o->kind];
	switch (o->kind) {
	case OP_LOOP:
		one_loop();
		mc_observe("loop ");
		observe_all("after-loop");
		liveness_checks();
		return 1;
	case OP_WRITE: {
		if (c->freed || c->wr_closed) return 0;
		if (g_type == T_CONNECT && 0) return 0;
		if (c->wr_total + o->a > PATLEN) return 0;
		if (BEV_UPCAST(c->bev)->writecb_pending) c->wr_forgive = 1;
		/* the bytes count as written from the moment of the call: callbacks may run inside it */
		c->wr_total += o->a;
		int r = bufferevent_write(c->bev, pat[1 - c->id] + c->wr_total - o->a, o->a);
		if (r != 0) { KEY(k, "C17/write-failed/%s", tname()); mc_fail(k, "bufferevent_write(%d) = %d", o->a, r); return 0; }
		/* a write that is flushed through at once by the transport counts as a write-out for C18 only
		 * if bytes left the output; prev_* bookkeeping in observe_end handles that */
		mc_observe("w%d(%d) ", c->id, o->a);
		return 1; }
	case OP_ENABLE:
		if (c->freed) return 0;
		if (g_type == T_CONNECT && !connect_state) return 0;           /* no fd yet */
		if (bufferevent_get_enabled(c->bev) & o->a) return 0;
		app_enable(c, o->a);
		bufferevent_enable(c->bev, o->a);
		mc_observe("en%d(%s) ", c->id, o->a == EV_READ ? "R" : "W");
		return 1;
	case OP_DISABLE:
		if (c->freed) return 0;
		if (g_type == T_CONNECT && !connect_state) return 0;
		if (!(bufferevent_get_enabled(c->bev) & o->a)) return 0;
		bufferevent_disable(c->bev, o->a);
		if (o->a == EV_READ) c->resume_due = 0;
		mc_observe("dis%d(%s) ", c->id, o->a == EV_READ ? "R" : "W");
		return 1;
	case OP_POLICY:
		if (c->freed || c->policy == o->a) return 0;
		if (c->policy >= P_FREE_SELF_RD) return 0;
		c->policy = o->a;
		mc_observe("pol%d(%s) ", c->id, polname[o->a]);
		return 1;
	case OP_FLUSH: {
		if (c->freed) return 0;
		if (o->b == BEV_FINISHED) {
			if (g_type == T_SOCK || g_type == T_CONNECT) return 0;
			if (o->a == EV_WRITE) { if (c->wr_closed) return 0; }
			else { if (c->rd_finished_flush) return 0; }
		}
		if (o->b != BEV_NORMAL) { E[0].hw_forced = E[1].hw_forced = 1; E[0].uw_forced = E[1].uw_forced = 1; }
		if (o->a == EV_READ && BEV_IS_FILTER(c->bev) && o->b != BEV_NORMAL) c->did_rflush = 1;
		if (o->a == EV_READ && BEV_IS_FILTER(c->bev)) {
			/* be_filter_flush(EV_READ) moves data into the input without a read callback
			 * (upstream "XXX"): that data is not covered by the order oracle */
		}
		int r = bufferevent_flush(c->bev, o->a, o->b);
		/* bytes the reader itself pulls out of a filter by flushing after EOF are not "data after EOF" */
		if (o->a == EV_READ && o->b != BEV_NORMAL && c->eof_seen) c->arrived_at_eof = c->rd_total + in_len(c);
		if (o->b == BEV_FINISHED && !p->freed) {
			if (o->a == EV_WRITE) { c->wr_closed = 1; c->closed_at = c->wr_total; }
			else c->rd_finished_flush = 1;
		}
		mc_observe("fl%d(%s,%d)=%d ", c->id, o->a == EV_READ ? "R" : "W", o->b, r);
		return 1; }
	case OP_RWM: {
		if (c->freed) return 0;
		size_t lo, hi; bufferevent_getwatermark(c->bev, EV_READ, &lo, &hi);
		if ((int)lo == o->a && (int)hi == o->b) return 0;
		/* a read callback scheduled under the old low mark may still be pending */
		if (!BEV_UPCAST(c->bev)->readcb_pending) c->rd_low_floor = o->a;
		else if ((size_t)o->a < c->rd_low_floor) c->rd_low_floor = o->a;
		bufferevent_setwatermark(c->bev, EV_READ, o->a, o->b);
		/* changing the mark is not "draining": no resume expectation arises here (the property speaks of
		 * draining); one that is pending is dropped if the input is at/above the new mark */
		if (o->b && in_len(c) >= (size_t)o->b) c->resume_due = 0;
		mc_observe("rwm%d(%d,%d) ", c->id, o->a, o->b);
		return 1; }
	case OP_WWM: {
		if (c->freed) return 0;
		size_t lo, hi; bufferevent_getwatermark(c->bev, EV_WRITE, &lo, &hi);
		if ((int)lo == o->a) return 0;
		if (!BEV_UPCAST(c->bev)->writecb_pending) c->wr_low_ceil = o->a;
		else if ((size_t)o->a > c->wr_low_ceil) c->wr_low_ceil = o->a;
		bufferevent_setwatermark(c->bev, EV_WRITE, o->a, 0);
		mc_observe("wwm%d(%d) ", c->id, o->a);
		return 1; }
	case OP_UWM: {
		if (c->freed || c->nstack < 2 || !BEV_IS_FILTER(c->bev)) return 0;
		struct bufferevent *u = c->stack[1];
		if ((int)u->wm_write.high == o->a) return 0;
		bufferevent_setwatermark(u, EV_WRITE, 0, o->a);
		mc_observe("uwm%d(%d) ", c->id, o->a);
		return 1; }
	case OP_FREE:
		if (c->freed) return 0;
		free_end(c);
		mc_observe("free%d ", c->id);
		return 1;
	case OP_CLEAR:
		if (c->freed || c->cleared) return 0;
		bufferevent_setcb(c->bev, NULL, NULL, NULL, NULL);
		c->cleared = 1;
		mc_observe("clear%d ", c->id);
		return 1;
	case OP_SHUTWR:
		if (c->freed || c->wr_closed) return 0;
		/* bytes still in the output buffer were not "written before the shutdown" at transport level */
		/* TLS: the application sends close_notify itself; only after the handshake and with nothing left to send
		 * (writing after one's own close_notify is application misuse) */
		if (g_tls && (out_len(c) || tls_shutdown(c) < 0)) return 0;
		c->closed_at = c->wr_total - out_len(c);
		c->wr_closed = 1;
		p->conserve_off = 1;
		if (!g_tls) shutdown(c->fd, SHUT_WR);
		mc_observe("shutwr%d ", c->id);
		return 1;
	case OP_CONNECT_OK: case OP_CONNECT_REFUSED: {
		if (c->freed || connect_state) return 0;
		struct sockaddr_in sin; memset(&sin, 0, sizeof sin);
		sin.sin_family = AF_INET; sin.sin_addr.s_addr = htonl(INADDR_LOOPBACK);
		sin.sin_port = htons(o->kind == OP_CONNECT_OK ? listener_port : refused_port);
		connect_state = o->kind == OP_CONNECT_OK ? 1 : 2;
		int r = bufferevent_socket_connect(c->bev, (struct sockaddr *)&sin, sizeof sin);
		mc_observe("connect(%s)=%d ", connect_state == 1 ? "ok" : "refused", r);
		/* an immediate failure is allowed by the API (and happens when the sandbox runs out of ephemeral
		 * ports under load): no CONNECTED may follow then; not a verdict */
		if (r < 0) { MC_COUNT("connect_immediate_failures"); connect_state = 2; }
		if (r == 0) bufferevent_enable(c->bev, EV_READ | EV_WRITE);      /* the usual client sequence */
		return 1; }
	case OP_PEER_SEND:
		if (accepted_fd < 0 || p->wr_closed) return 0;
		if (write(accepted_fd, pat[0] + p->wr_total, o->a) != o->a) return 0;
		p->wr_total += o->a;
		mc_observe("peer_send(%d) ", o->a);
		return 1;
	case OP_PEER_CLOSE:
		if (accepted_fd < 0) return 0;
		p->wr_closed = 1; p->closed_at = p->wr_total;
		close(accepted_fd); accepted_fd = -2;
		mc_observe("peer_close ");
		return 1;
	}
	return 0;
}

/* ------------------------------------------------------------------ final drain */
static void quiesce(void)
{
	int idle = 0;
	for (int i = 0; i < 80 && idle < 2; i++) {
		size_t before = E[0].rd_total + E[1].rd_total;
		one_loop();
		observe_all("final-drain");
		if (E[0].freed || E[1].freed) return;
		if (loop_broke) { idle = 0; continue; }
		if (E[0].rd_total + E[1].rd_total == before && loop_cbs == 0) idle++; else idle = 0;
	}
}

static void final_drain(void)
{
	if (!g_final || g_type == T_CONNECT) return;
	for (int e = 0; e < 2; e++) if (E[e].freed || E[e].cleared) return;
	for (int e = 0; e < 2; e++) {
		struct endctx *c = &E[e];
		if (c->policy >= P_FREE_SELF_RD) return;
	}
	for (int e = 0; e < 2; e++) {
		struct endctx *c = &E[e];
		c->policy = P_ALL;
		c->rd_low_floor = 0; c->wr_low_ceil = (size_t)-1; c->wr_forgive = 1;
		for (int i = 0; i < c->nstack; i++) {
			size_t lo, hi, wlo, whi;
			bufferevent_getwatermark(c->stack[i], EV_READ, &lo, &hi); bufferevent_getwatermark(c->stack[i], EV_WRITE, &wlo, &whi);
			if (lo || hi || wlo || whi) {
				if (g_finalraise && hi) {
					/* "changed while suspended": a larger, still non-zero mark above what is buffered must let
					 * the stream flow again just as removing the mark does (C17: nothing written may be lost) */
					bufferevent_setwatermark(c->stack[i], EV_WRITE, 0, 0);
					bufferevent_setwatermark(c->stack[i], EV_READ, 0, 1 << 20);
				} else
					bufferevent_setwatermark(c->stack[i], EV_READ | EV_WRITE, 0, 0);
				c->since_eof = "setwatermark";
			}
		}
		short missing = (EV_READ | EV_WRITE) & ~bufferevent_get_enabled(c->bev);
		if (missing) { app_enable(c, missing); bufferevent_enable(c->bev, missing); }
	}
	quiesce();
	if (E[0].freed || E[1].freed) return;
	MC_COUNT("c17_final_drains");
	/* C17 at quiescence ("the bytes read equal the bytes written"): bytes can legitimately stay parked while
	 * nothing new happens (output written while EV_WRITE was disabled, data moved by flush(EV_READ) into a
	 * filter input without a callback, a low read mark that was lowered later, NEED_MORE tail), so each end
	 * that may still write sends ONE more byte; after that arrival and a loop to quiescence everything that
	 * was written must have been handed to the reading application. */
	int nudged[2] = { 0, 0 };
	for (int e = 0; e < 2; e++) {
		struct endctx *c = &E[e];
		if (c->wr_closed || c->wr_total + 2 > PATLEN) continue;
		if (c->n_err_w || c->n_err_r || c->n_err_plain || c->n_eof_w) continue;
		size_t nn = (g_type == T_FILTER && g_filt == F_NEEDMORE) ? 2 : 1;   /* the NEED_MORE filter works on pairs */
		c->wr_total += nn;
		if (bufferevent_write(c->bev, pat[1 - c->id] + c->wr_total - nn, nn) != 0) { c->wr_total -= nn; continue; }
		nudged[e] = 1;
	}
	observe_all("final-nudge");
	quiesce();
	if (E[0].freed || E[1].freed || loop_broke) return;
	for (int e = 0; e < 2; e++) {
		struct endctx *c = &E[e], *p = peer_of(c);
		if (!nudged[p->id] || c->eof_seen || c->n_err_r || c->n_eof_r || p->n_err_w || p->n_eof_w) continue;
		size_t got = c->rd_total, want = p->wr_total;
		MC_COUNT("c17_quiescence_checked");
		if (g_type == T_FILTER && g_filt == F_NEEDMORE && got + 1 == want && evbuffer_get_length(c->stack[1]->input) == 1) continue;
		if (got != want) {
			KEY(k, "C17/not-delivered-at-quiescence/%s/%s", tname(), in_len(c) ? "in-receiver-input-no-readcb" : stuck_where(c));
			mc_fail(k, "end %d consumed %zu of %zu bytes after everything was enabled, watermarks removed, one more byte written and the loop run to quiescence (filter %d)",
			    c->id, got, want, g_filt);
		}
	}
}

/* ------------------------------------------------------------------ canonical state for mc_state()
 * Soundness argument.  Two histories that reach the same canon() value have the same continuations
 * (same libevent behaviour and same oracle verdicts) because canon() contains
 *  - for every live bufferevent of both stacks every field the bufferevent layer reads: lengths of
 *    input/output, freeze bits, evbuffer callback entries' flags and pending add/del counts, enabled,
 *    suspend flags, all four watermarks, pending deferred flags, connecting flags, refcnt, callbacks
 *    set or cleared, pair partner link, socket events' list membership and result bits;
 *  - the event_base's queues of active callbacks in order, each callback mapped to (end, layer, role)
 *    or to "finalizer of a freed bufferevent" (order decides which deferred callback runs first);
 *  - every field of the model/oracle state that later verdicts read, offsets taken RELATIVE to the
 *    stream position (rd_total): the reference pattern has no structure the library could depend on
 *    (pair/filter/socket code never looks at payload bytes), and content equality of every buffer with
 *    the pattern has already been verified at this point, so absolute offsets do not matter;
 *  - not the evbuffer chain layout: the bufferevent layer only uses lengths and whole-buffer moves,
 *    and evbuffer_read/evbuffer_write_atmost sizes depend on FIONREAD/max_single_* only (<=128 chains);
 *  - for socket types the kernel queues are hidden state (skb accounting, epoll ready order), therefore
 *    a socket state is only used for pruning when both kernel queues are empty and at most one
 *    registered event is ready (then the ready order is irrelevant).
 * type=connect and TLS types are never pruned.  -P prune=0 disables pruning (used to cross-check). */
static int g_prune = 1;
#define H(v) (h = mc_hash_u64(h, (uint64_t)(v)))

static uint64_t canon_evbuffer(uint64_t h, struct evbuffer *b)
{
	struct evbuffer_cb_entry *e;
	H(b->total_len); H(b->freeze_start); H(b->freeze_end); H(b->n_add_for_cb); H(b->n_del_for_cb); H(b->deferred_cbs);
	LIST_FOREACH(e, &b->callbacks, next) H(e->flags + 0x100);
	H(0xeb);
	return h;
}

static int cb_ident(struct event_callback *cb)
{
	for (int e = 0; e < 2; e++) for (int i = 0; i < E[e].nstack; i++) {
		struct bufferevent *b = E[e].addr[i];
		if (!b) continue;
		struct bufferevent_private *bp = BEV_UPCAST(b);
		int id = (e * MAXSTACK + i) * 4;
		if (cb == &bp->deferred) return id + 1;
		if (cb == &b->ev_read.ev_evcallback) return id + 2;
		if (cb == &b->ev_write.ev_evcallback) return id + 3;
	}
	return 99;   /* evbuffer callbacks of freed bufferevents etc.: only their position matters */
}

static int canon(uint64_t *out)
{
	uint64_t h = 0x5eed;
	if (g_type == T_CONNECT || g_tls) return 0;
	if (g_type == T_SOCK) {
		struct pollfd pf[2]; int ready = 0;
		for (int e = 0; e < 2; e++) {
			struct endctx *c = &E[e];
			pf[e].fd = -1; pf[e].events = 0; pf[e].revents = 0;
			if (c->freed) continue;
			if (sock_inq(c->fd) > 0) return 0;
			pf[e].fd = c->fd;
			if (event_pending(&c->bev->ev_read, EV_READ, NULL)) pf[e].events |= POLLIN;
			if (event_pending(&c->bev->ev_write, EV_WRITE, NULL)) pf[e].events |= POLLOUT;
		}
		__real_poll(pf, 2, 0);
		for (int e = 0; e < 2; e++) if (pf[e].fd >= 0 && (pf[e].revents & (pf[e].events | POLLHUP | POLLERR))) ready++;
		if (ready > 1) return 0;
		/* a freed end may leave unread data / a closed socket behind: peer state is then kernel-hidden */
		if (E[0].freed || E[1].freed) return 0;
		H(pf[0].revents); H(pf[1].revents);
	}
	for (int e = 0; e < 2; e++) {
		struct endctx *c = &E[e], *p = peer_of(c);
		H(0xe0 + e); H(c->freed); H(c->cleared); H(c->policy); H(c->wr_closed); H(c->rd_finished_flush); H(c->did_rflush); H(c->conserve_off);
		H(c->since_eof ? c->since_eof[0] + c->since_eof[3] * 256 : 0); H(c->eof_seen); if (c->eof_seen) h = mc_hash(h, c->eof_stuck, strlen(c->eof_stuck)); H(c->hw_forced); H(c->uw_forced); H(c->rd_low_floor); H(c->wr_low_ceil); H(c->wr_forgive);
		H(c->wcb_due); H(c->resume_due); H(c->was_blocked); H(c->n_connected); H(c->cbs_before_connected > 0);
		H(c->n_eof_r > 1 ? 2 : c->n_eof_r); H(c->n_eof_w > 1 ? 2 : c->n_eof_w);
		H(c->n_err_r > 1 ? 2 : c->n_err_r); H(c->n_err_w > 1 ? 2 : c->n_err_w); H(c->n_err_plain > 1 ? 2 : c->n_err_plain);
		H(c->prev_in_len); H(c->prev_uout_len); H(c->prev_out_len); H(c->wr_total - c->prev_wr_total);
		H(c->resume_due ? c->resume_arrived - c->rd_total : 0);
		H(p->wr_closed ? p->closed_at - c->rd_total : 0);
		H(p->wr_total - c->rd_total);                 /* bytes of the stream not yet consumed (redundant with lengths when conserved) */
		if (c->freed) continue;
		for (int i = 0; i < c->nstack; i++) {
			struct bufferevent *b = c->stack[i]; struct bufferevent_private *bp = BEV_UPCAST(b);
			H(0xb0 + i);
			h = canon_evbuffer(h, b->input); h = canon_evbuffer(h, b->output);
			H(b->enabled); H(bp->read_suspended); H(bp->write_suspended);
			H(b->wm_read.low); H(b->wm_read.high); H(b->wm_write.low); H(b->wm_write.high);
			H(bp->readcb_pending); H(bp->writecb_pending); H(bp->eventcb_pending); H(bp->connecting); H(bp->connection_refused);
			H(bp->refcnt); H(b->readcb != NULL); H(b->writecb != NULL); H(b->errorcb != NULL);
			H(bp->deferred.evcb_flags);
			if (BEV_IS_PAIR(b)) H(bufferevent_pair_get_partner(b) != NULL);
			if (BEV_IS_SOCKET(b)) { H(b->ev_read.ev_evcallback.evcb_flags); H(b->ev_write.ev_evcallback.evcb_flags); H(b->ev_read.ev_res); H(b->ev_write.ev_res); }
		}
	}
	for (int q = 0; q <= base->nactivequeues; q++) {
		struct evcallback_list *l = q < base->nactivequeues ? &base->activequeues[q] : &base->active_later_queue;
		struct event_callback *cb;
		H(0xa0 + q);
		TAILQ_FOREACH(cb, l, evcb_active_next) { H(cb_ident(cb)); H(cb->evcb_flags); H(cb->evcb_closure); }
	}
	*out = h;
	return 1;
}
#undef H

/* ------------------------------------------------------------------ body */
static void idle(void) { event_base_loopbreak(base); }

static long live0; static uint64_t fd0;

static void teardown(void)
{
	for (int e = 0; e < 2; e++) if (!E[e].freed && E[e].bev) free_end(&E[e]);
	if (g_tls) tls_teardown();
	/* let pending deferred callbacks and finalizers run: a deferred callback that is still queued holds a
	 * reference, and event_base_free() cancels it without dropping that reference (upstream behaviour,
	 * belongs to the lifetime properties, not to C17-C19).  Any user callback from here on is a
	 * callback-after-free. */
	if (base) for (int i = 0; i < 4; i++) { one_loop(); if (!loop_cbs && !event_base_get_num_events(base, EVENT_BASE_COUNT_ACTIVE)) break; }
	if (base) { event_base_free(base); base = NULL; }
	if (accepted_fd >= 0) close(accepted_fd);
	accepted_fd = -1;
	/* connections that were never accepted must not pile up in the listener's backlog */
	if (listener_fd >= 0) for (;;) { int fd = accept4(listener_fd, NULL, NULL, SOCK_NONBLOCK); if (fd < 0) break; close(fd); }
	if (mcx_alloc_live() != live0) { KEY(k, "leak/%s", tname()); mc_fail(k, "%ld library allocations still live after teardown (refcount never reached zero?)", mcx_alloc_live() - live0); }
	if (fd_sig() != fd0) { KEY(k, "fdleak/%s", tname()); mc_fail(k, "fd table differs from the baseline after teardown"); }
}

static void body(void)
{
	vclock_reset(); vclock_idle_hook = idle;
	live0 = mcx_alloc_live(); fd0 = fd_sig();
	if (setup() < 0) { teardown(); return; }
	observe_all("setup");
	for (int step = 0; step < g_depth; step++) {
		int i = mc_choose(NOPS, 0, "op");
		if (i == 0) break;
		if (!apply(&OPS[i])) break;
		if (OPS[i].kind != OP_LOOP) observe_all("after-op");
		if (mc_failed()) break;
		if (g_prune && step + 1 < g_depth) {
			uint64_t h;
			if (canon(&h) && mc_state(h, g_depth - 1 - step)) { MC_COUNT("pruned_histories"); break; }
		}
	}
	if (!mc_failed()) final_drain();
	teardown();
}

/* small quarantine: executions are short and allocate < 2 MiB; the 256 MiB default makes every execution
 * touch fresh pages (3x slower) without adding detection power inside one execution */
const char *__asan_default_options(void) { return "quarantine_size_mb=8"; }

static void quiet_log(int sev, const char *msg) { (void)sev; (void)msg; }

static void init(void)
{
	signal(SIGPIPE, SIG_IGN);
	event_set_log_callback(quiet_log);
	mcx_alloc_install();
	if (g_opts >= 2) {
		evthread_use_pthreads();
		if (mc_param("lockdebug", 1)) evthread_enable_lock_debugging();
	}
	for (int d = 0; d < 2; d++) {
		pat[d] = malloc(PATLEN);
		for (uint32_t i = 0; i < PATLEN; i++) {
			uint32_t x = i * 2654435761u + (uint32_t)d * 0x9e3779b9u;
			pat[d][i] = (unsigned char)((x >> 24) ^ (x >> 11) ^ i);
		}
	}
	if (g_type == T_CONNECT) {
		struct sockaddr_in sin; socklen_t sl = sizeof sin;
		memset(&sin, 0, sizeof sin); sin.sin_family = AF_INET; sin.sin_addr.s_addr = htonl(INADDR_LOOPBACK);
		listener_fd = socket(AF_INET, SOCK_STREAM | SOCK_NONBLOCK, 0);
		bind(listener_fd, (struct sockaddr *)&sin, sizeof sin); listen(listener_fd, 64);
		getsockname(listener_fd, (struct sockaddr *)&sin, &sl); listener_port = ntohs(sin.sin_port);
		/* a port that refuses: bound but not listening */
		int r = socket(AF_INET, SOCK_STREAM, 0);
		memset(&sin, 0, sizeof sin); sin.sin_family = AF_INET; sin.sin_addr.s_addr = htonl(INADDR_LOOPBACK);
		bind(r, (struct sockaddr *)&sin, sizeof sin); sl = sizeof sin;
		getsockname(r, (struct sockaddr *)&sin, &sl); refused_port = ntohs(sin.sin_port);
		/* keep r open (bound, not listening): connects are refused and nobody else can take the port */
	}
	if (g_tls) tls_init();
}

int main(int argc, char **argv)
{
	static struct mc_config cfg = { .property = "C17", .body = body, .init = init, .default_split = 2 };
	/* parameters are needed before mc_main parses them: scan argv for -P ourselves */
	const char *type = "pair", *filt = "ident", *opts = "0", *prop = "17";
	for (int i = 1; i + 1 < argc; i++) if (!strcmp(argv[i], "-P")) {
		const char *a = argv[i + 1];
		if (!strncmp(a, "type=", 5)) type = a + 5;
		else if (!strncmp(a, "filt=", 5)) filt = a + 5;
		else if (!strncmp(a, "opts=", 5)) opts = a + 5;
		else if (!strncmp(a, "prop=", 5)) prop = a + 5;
		else if (!strncmp(a, "depth=", 6)) g_depth = atoi(a + 6);
		else if (!strncmp(a, "finalraise=", 11)) g_finalraise = atoi(a + 11);
		else if (!strncmp(a, "final=", 6)) g_final = atoi(a + 6);
		else if (!strncmp(a, "big=", 4)) g_big = atoi(a + 4);
		else if (!strncmp(a, "bwm=", 4)) g_bwm = atoi(a + 4);
		else if (!strncmp(a, "bpol=", 5)) g_bpol = !strcmp(a + 5, "one") ? P_ONE : !strcmp(a + 5, "leave") ? P_LEAVE : P_ALL;
		else if (!strncmp(a, "prune=", 6)) g_prune = atoi(a + 6);
	}
	if (!g_depth) g_depth = 4;
	static char tn[64];
	if (!strcmp(type, "pair")) g_type = T_PAIR;
	else if (!strcmp(type, "filter")) g_type = T_FILTER;
	else if (!strcmp(type, "filter2")) g_type = T_FILTER2;
	else if (!strcmp(type, "sock")) g_type = T_SOCK;
	else if (!strcmp(type, "connect")) g_type = T_CONNECT;
	else if (!strcmp(type, "openssl")) { g_type = T_TLS; g_tls = 1; }
	else if (!strcmp(type, "mbedtls")) { g_type = T_TLS; g_tls = 2; }
	else { fprintf(stderr, "bev: unknown type %s\n", type); return 2; }
	if (!strcmp(filt, "null")) g_filt = F_NULL; else if (!strcmp(filt, "ident")) g_filt = F_IDENT;
	else if (!strcmp(filt, "xor")) g_filt = F_XOR; else if (!strcmp(filt, "needmore")) g_filt = F_NEEDMORE;
	else { fprintf(stderr, "bev: unknown filter %s\n", filt); return 2; }
	if (!strcmp(opts, "0")) g_opts = 0; else if (!strcmp(opts, "defer")) g_opts = 1; else if (!strcmp(opts, "defer_unlock")) g_opts = 2;
	else { fprintf(stderr, "bev: unknown opts %s\n", opts); return 2; }
	/* keys carry the transport class; the filter function (null/ident/xor/needmore) is a parameter of the run,
	 * the defects found so far are in bufferevent_filter.c itself and do not depend on it */
	snprintf(tn, sizeof tn, "%s", type);
	g_tname = tn;
	cfg.property = !strcmp(prop, "18") ? "C18" : !strcmp(prop, "19") ? "C19" : "C17";
	g_prop = atoi(prop);
	const char *ops = "wepfl";
	for (int i = 1; i + 1 < argc; i++) if (!strcmp(argv[i], "-P") && !strncmp(argv[i + 1], "ops=", 4)) ops = argv[i + 1] + 4;
	build_alphabet(ops);
	return mc_main(argc, argv, &cfg);
}
