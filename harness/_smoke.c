#include "mcx.h"
#include "vclock.h"
#include <event2/event.h>
#include <stdio.h>
static struct event_base *base; static int fired; static int64_t fired_at;
static void cb(evutil_socket_t fd, short w, void *a){ fired++; fired_at=vclock_us; }
static void idle(void){ event_base_loopbreak(base); }
static void lcb(int sev,const char*m){}
static void init(void){ mcx_alloc_install(); event_set_log_callback(lcb); }
static void body(void){
  vclock_reset(); vclock_idle_hook=idle; fired=0;
  long live0=mcx_alloc_live(); uint64_t fd0=mcx_fd_signature();
  base=event_base_new();
  struct event *ev=evtimer_new(base,cb,NULL);
  static const int durs[]={0,1,999,1000,5000};
  int added=0; int64_t deadline=0;
  for(int s=0;s<mc_param("depth",3);s++){
    int op=mc_choose(4,0,"op"); if(!op)break;
    if(op==1){ int d=durs[mc_choose(5,0,"dur")]; struct timeval tv={0,d}; event_add(ev,&tv); added=1; deadline=vclock_us+d; fired=0; mc_observe("add(%d) ",d);}
    if(op==2){ int d=durs[mc_choose(5,0,"adv")]; vclock_advance(d); mc_observe("adv(%d) ",d);}
    if(op==3){ event_base_loop(base,EVLOOP_NONBLOCK); mc_observe("loop->%d ",fired);
       if(added){ if(fired && fired_at<deadline) mc_fail("smoke/early","fired at %ld < %ld",(long)fired_at,(long)deadline);
                  if(!fired && vclock_us>=deadline) mc_fail("smoke/late","not fired at %ld >= %ld",(long)vclock_us,(long)deadline);
                  if(fired) added=0; } }
  }
  event_free(ev); event_base_free(base);
  if(mcx_alloc_live()!=live0) mc_fail("smoke/leak","%ld",mcx_alloc_live()-live0);
  if(mcx_fd_signature()!=fd0) mc_fail("smoke/fdleak","x");
}
int main(int c,char**v){struct mc_config cfg={.property="SMOKE",.body=body,.init=init};return mc_main(c,v,&cfg);}
