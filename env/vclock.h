/* Virtual clock + non-blocking backend waits (link-time --wrap; no source change).
 * Link with:  --wrap=clock_gettime --wrap=gettimeofday --wrap=time
 *             --wrap=epoll_pwait2 --wrap=epoll_wait --wrap=poll --wrap=select
 * (checks.d "wrap" list; macro list below).
 *
 * Every wait is executed as a real zero-timeout call.  If nothing is ready and
 * the caller would have blocked, vclock_block_hook decides how far virtual
 * time moves (default: exactly the requested timeout; infinite → idle hook). */
#ifndef VCLOCK_H
#define VCLOCK_H
#include <stdint.h>
#define VCLOCK_WRAPS "clock_gettime", "gettimeofday", "time", "epoll_pwait2", "epoll_wait", "poll", "select"

extern int64_t vclock_us;                 /* virtual microseconds since reset */
extern long vclock_waits;                 /* number of backend waits since reset */
extern long vclock_blocks;                /* waits that found nothing and would have blocked */
void vclock_reset(void);
void vclock_advance(int64_t us);

/* Called when a wait found nothing ready and its timeout is not zero.
 * timeout_us: requested timeout, -1 = infinite.  Return the number of virtual
 * microseconds to advance (>= 0).  The hook may also make fds ready (inject
 * stimuli); the wait is retried once (zero timeout) afterwards.
 * Default: finite → return timeout_us; infinite → vclock_idle_hook() (must be
 * set by the harness, typically event_base_loopbreak) and return 0. */
extern int64_t (*vclock_block_hook)(int64_t timeout_us);
extern void (*vclock_idle_hook)(void);
/* Called at the start of every wait, before the real call (C05/C45 observation point).
 * kind: 'e' epoll (a = epfd), 'p' poll (a = struct pollfd*, n = nfds), 's' select (n = nfds, a = fd_set*[3]) */
extern void (*vclock_prewait_hook)(int kind, void *a, long n, int64_t timeout_us);
/* Called after every wait with the number of ready fds about to be returned. */
extern void (*vclock_postwait_hook)(int nready);
#endif
