/* dnse2e_env — see dnse2e_env.h */
#ifndef _GNU_SOURCE
#define _GNU_SOURCE
#endif
#include "dnse2e_env.h"
#include "mcx.h"
#include <stdio.h>
#include <stdlib.h>
#include <string.h>
#include <errno.h>
#include <unistd.h>
#include <fcntl.h>
#include <poll.h>
#include <sched.h>
#include <time.h>
#include <sys/types.h>
#include <sys/stat.h>
#include <sys/socket.h>
#include <sys/ioctl.h>
#include <sys/syscall.h>
#include <linux/sockios.h>
#include <netinet/tcp.h>
#include <arpa/inet.h>

struct dnse_ns dnse_ns[DNSE_MAXNS];
long dnse_spins;
long dnse_stream_sockets;
void (*dnse_udp_send_hook)(int ns, const void *pkt, int len);
unsigned long dnse_rng_id_calls;
static int rng_mode;

int __real_socket(int, int, int);
ssize_t __real_sendto(int, const void *, size_t, int, const struct sockaddr *, socklen_t);
int __real_poll(struct pollfd *, nfds_t, int);   /* poll is wrapped by env/vclock.c */

/* ------------------------------------------------------------------ real time */
static double now_real(void)
{
	struct timespec ts;
	syscall(SYS_clock_gettime, CLOCK_MONOTONIC, &ts);
	return ts.tv_sec + ts.tv_nsec * 1e-9;
}
static void tiny_sleep(void)
{
	struct timespec ts = { 0, 50000 };
	sched_yield();
	syscall(SYS_nanosleep, &ts, NULL);
}

/* ------------------------------------------------------------------ RNG wrap */
void dnse_rng_reset(int mode) { rng_mode = mode; dnse_rng_id_calls = 0; }

void __wrap_evutil_secure_rng_get_bytes(void *buf, size_t n)
{
	if (n == 2) {
		unsigned long k = dnse_rng_id_calls++;
		uint16_t v;
		if (rng_mode == 0) v = (uint16_t)(0x1000 + k);
		else if (rng_mode == 1) v = (k % 3 == 2) ? 0xffff : (uint16_t)(0x2fff - k / 3);
		else v = (k % 3 == 2) ? 0xffff : (uint16_t)(0x2000 + k / 3);
		memcpy(buf, &v, 2);
		return;
	}
	/* 0x20 case bits and anything else: a fixed mixed pattern */
	memset(buf, 0xa5, n);
}

/* ------------------------------------------------------------------ socket / sendto wraps */
#define MAXCLI 16
static struct { int fd; ino_t ino; } cli[MAXCLI];
static int ncli;

static int is_harness_fd(int fd)
{
	for (int i = 0; i < DNSE_MAXNS; i++) {
		if (fd == dnse_ns[i].udp || fd == dnse_ns[i].lis) return 1;
		for (int c = 0; c < DNSE_MAXTCP; c++)
			if (dnse_ns[i].tcp[c].open && dnse_ns[i].tcp[c].fd == fd) return 1;
	}
	return 0;
}

int __wrap_socket(int domain, int type, int protocol)
{
	int fd = __real_socket(domain, type, protocol);
	if (fd >= 0 && (type & 0xf) == SOCK_STREAM && (domain == AF_INET || domain == AF_INET6)) {
		struct linger lg = { 1, 0 };
		struct stat st;
		dnse_stream_sockets++;
		setsockopt(fd, SOL_SOCKET, SO_LINGER, &lg, sizeof lg);
		if (fstat(fd, &st) == 0) {
			int i;
			for (i = 0; i < ncli; i++) if (cli[i].fd == fd) break;
			if (i == ncli && ncli < MAXCLI) ncli++;
			if (i < MAXCLI) { cli[i].fd = fd; cli[i].ino = st.st_ino; }
		}
	}
	return fd;
}

ssize_t __wrap_sendto(int fd, const void *buf, size_t len, int flags, const struct sockaddr *to, socklen_t tolen)
{
	int ns = -1;
	if (to && to->sa_family == AF_INET && tolen >= sizeof(struct sockaddr_in)) {
		const struct sockaddr_in *sin = (const struct sockaddr_in *)to;
		if (sin->sin_addr.s_addr == htonl(0x7f000001))
			for (int i = 0; i < DNSE_MAXNS; i++)
				if (dnse_ns[i].port && ntohs(sin->sin_port) == dnse_ns[i].port) ns = i;
	}
	if (ns >= 0 && dnse_udp_send_hook) dnse_udp_send_hook(ns, buf, (int)len);
	ssize_t r = __real_sendto(fd, buf, len, flags, to, tolen);
	if (r >= 0 && ns >= 0) dnse_ns[ns].sent++;
	return r;
}

/* ------------------------------------------------------------------ nameserver sockets */
static int open_listener(int port)
{
	struct sockaddr_in a; int one = 1;
	int l = __real_socket(AF_INET, SOCK_STREAM | SOCK_NONBLOCK | SOCK_CLOEXEC, 0);
	if (l < 0) return -1;
	setsockopt(l, SOL_SOCKET, SO_REUSEADDR, &one, sizeof one);
	memset(&a, 0, sizeof a); a.sin_family = AF_INET; a.sin_addr.s_addr = htonl(0x7f000001); a.sin_port = htons(port);
	if (bind(l, (struct sockaddr *)&a, sizeof a) < 0 || listen(l, 16) < 0) { close(l); return -1; }
	return l;
}

/* Ports are taken below the ephemeral range (ip_local_port_range starts at 32768): while a
 * listener is closed ("TCP refused") a client connect() to its port must get a reset —
 * inside the ephemeral range the kernel can pick the destination port as source port
 * (TCP self-connect) or hand the port to another process. */
static int open_pair(struct dnse_ns *n)
{
	static unsigned seq;
	for (int attempt = 0; attempt < 4000; attempt++) {
		struct sockaddr_in a;
		int port = 10000 + (int)(((unsigned)getpid() * 131u + (seq++) * 7919u) % 22000u);
		int u = __real_socket(AF_INET, SOCK_DGRAM | SOCK_NONBLOCK | SOCK_CLOEXEC, 0);
		if (u < 0) return -1;
		memset(&a, 0, sizeof a); a.sin_family = AF_INET; a.sin_addr.s_addr = htonl(0x7f000001); a.sin_port = htons(port);
		if (bind(u, (struct sockaddr *)&a, sizeof a) < 0) { close(u); continue; }
		int l = open_listener(port);
		if (l < 0) { close(u); continue; }
		n->udp = u; n->lis = l; n->port = port; n->listening = 1;
		return 0;
	}
	return -1;
}

int dnse_ns_init(void)
{
	memset(dnse_ns, 0, sizeof dnse_ns);
	for (int i = 0; i < DNSE_MAXNS; i++) { dnse_ns[i].udp = dnse_ns[i].lis = -1; }
	for (int i = 0; i < DNSE_MAXNS; i++)
		if (open_pair(&dnse_ns[i]) < 0) { fprintf(stderr, "dnse2e_env: cannot create nameserver sockets: %s\n", strerror(errno)); return -1; }
	return 0;
}

void dnse_ns_sockaddr(int ns, struct sockaddr_in *sin)
{
	memset(sin, 0, sizeof *sin);
	sin->sin_family = AF_INET; sin->sin_addr.s_addr = htonl(0x7f000001); sin->sin_port = htons(dnse_ns[ns].port);
}

static void drain_udp(struct dnse_ns *n)
{
	uint8_t b[2048];
	while (recv(n->udp, b, sizeof b, MSG_DONTWAIT) >= 0) ;
}

static void hard_close(int fd)
{
	struct linger lg = { 1, 0 };
	setsockopt(fd, SOL_SOCKET, SO_LINGER, &lg, sizeof lg);
	close(fd);
}

static int seen_ports[64], nseen;

void dnse_ns_begin(void)
{
	ncli = 0; nseen = 0;
	for (int i = 0; i < DNSE_MAXNS; i++) {
		struct dnse_ns *n = &dnse_ns[i];
		drain_udp(n);
		n->sent = n->rcvd = n->accepted = 0;
		for (int c = 0; c < DNSE_MAXTCP; c++) n->tcp[c].open = 0;
	}
}

void dnse_ns_end(void)
{
	/* first release every accepted connection (their fd numbers may be the ones a reopened listener must get back) */
	for (int i = 0; i < DNSE_MAXNS; i++) {
		struct dnse_ns *n = &dnse_ns[i];
		int fd;
		for (int c = 0; c < DNSE_MAXTCP; c++)
			if (n->tcp[c].open) { hard_close(n->tcp[c].fd); n->tcp[c].open = 0; }
		if (n->listening)
			while ((fd = accept4(n->lis, NULL, NULL, SOCK_NONBLOCK | SOCK_CLOEXEC)) >= 0) hard_close(fd);
	}
	for (int i = 0; i < DNSE_MAXNS; i++) {
		struct dnse_ns *n = &dnse_ns[i];
		if (n->listening) {
			int fd;
			while ((fd = accept4(n->lis, NULL, NULL, SOCK_NONBLOCK | SOCK_CLOEXEC)) >= 0) hard_close(fd);
		} else {
			n->lis = open_listener(n->port);
			if (n->lis >= 0 && n->lis != n->lis_num && fcntl(n->lis_num, F_GETFD) < 0) {
				/* keep the fd number stable (the fd-table baseline is compared by number) */
				if (dup2(n->lis, n->lis_num) >= 0) { close(n->lis); n->lis = n->lis_num; fcntl(n->lis, F_SETFD, FD_CLOEXEC); }
			}
			if (n->lis < 0) {
				/* port taken meanwhile: move this nameserver to a fresh port pair */
				close(n->udp);
				if (open_pair(n) < 0) { fprintf(stderr, "dnse2e_env: cannot reopen nameserver\n"); abort(); }
			}
			n->listening = 1;
		}
		drain_udp(n);
	}
	ncli = 0;
}

/* ------------------------------------------------------------------ TCP state helpers */
static int tcp_state(int fd)
{
	struct tcp_info ti; socklen_t l = sizeof ti;
	if (getsockopt(fd, IPPROTO_TCP, TCP_INFO, &ti, &l) < 0) return -1;
	return ti.tcpi_state;
}
static int local_port(int fd)
{
	struct sockaddr_in a; socklen_t l = sizeof a;
	if (getsockname(fd, (struct sockaddr *)&a, &l) < 0 || a.sin_family != AF_INET) return -1;
	return ntohs(a.sin_port);
}
static int outq(int fd)
{
	int q = 0;
	if (ioctl(fd, SIOCOUTQ, &q) < 0) return 0;
	return q;
}

static void prune_clients(void)
{
	int w = 0;
	for (int i = 0; i < ncli; i++) {
		struct stat st;
		if (fstat(cli[i].fd, &st) < 0 || st.st_ino != cli[i].ino || is_harness_fd(cli[i].fd)) continue;
		cli[w++] = cli[i];
	}
	ncli = w;
}

/* seen_ports: peer ports of connections the harness has accepted (open or already closed) in this execution */
static int port_seen(int p) { for (int i = 0; i < nseen; i++) if (seen_ports[i] == p) return 1; return 0; }

static void accept_all(void)
{
	for (int i = 0; i < DNSE_MAXNS; i++) {
		struct dnse_ns *n = &dnse_ns[i];
		if (!n->listening) continue;
		for (;;) {
			struct sockaddr_in pa; socklen_t pl = sizeof pa;
			int fd = accept4(n->lis, (struct sockaddr *)&pa, &pl, SOCK_NONBLOCK | SOCK_CLOEXEC);
			if (fd < 0) break;
			int c;
			for (c = 0; c < DNSE_MAXTCP; c++) if (!n->tcp[c].open) break;
			if (c == DNSE_MAXTCP) { hard_close(fd); mc_fail("harness:too-many-tcp-connections", "ns%d", i); continue; }
			n->tcp[c].fd = fd; n->tcp[c].open = 1; n->tcp[c].inlen = 0; n->tcp[c].eof = 0;
			n->tcp[c].peer_port = ntohs(pa.sin_port);
			n->accepted++;
			if (nseen < 64) seen_ports[nseen++] = n->tcp[c].peer_port;
		}
	}
}

static int client_with_port(int port)
{
	for (int i = 0; i < ncli; i++) if (local_port(cli[i].fd) == port) return cli[i].fd;
	return -1;
}

void dnse_settle(void)
{
	double t0 = 0;
	for (int spin = 0;; spin++) {
		int busy = 0;          /* bit mask of reasons, reported when the wait times out */
		accept_all();
		prune_clients();
		for (int i = 0; i < ncli; i++) {
			int st = tcp_state(cli[i].fd);
			if (st < 0) continue;
			if (st == TCP_SYN_SENT) { busy |= 1; continue; }
			if (st == TCP_ESTABLISHED || st == TCP_CLOSE_WAIT) {
				if (outq(cli[i].fd) > 0) busy |= 2;
				int lp = local_port(cli[i].fd);
				if (lp > 0 && !port_seen(lp)) busy |= 4;     /* handshake done, not yet in our accept queue */
			}
		}
		for (int i = 0; i < DNSE_MAXNS; i++)
			for (int c = 0; c < DNSE_MAXTCP; c++) {
				struct dnse_tcpconn *t = &dnse_ns[i].tcp[c];
				if (!t->open) continue;
				int st = tcp_state(t->fd);
				if (st == TCP_ESTABLISHED) {
					if (outq(t->fd) > 0) busy |= 8;
					/* peer gone (libevent closed its end): the FIN/RST must reach us */
					if (client_with_port(t->peer_port) < 0) busy |= 16;
				}
			}
		if (!busy) break;
		if (spin == 0) { t0 = now_real(); dnse_spins++; }
		else if (now_real() - t0 > 15.0) { mc_fail("harness:net-settle-timeout", "loopback TCP traffic still in flight after 15 s (reasons %#x, %d client sockets, %d accepted so far)", busy, ncli, nseen); break; }
		tiny_sleep();
	}
}

/* wait until the client side of the connection with this peer port has noticed our close */
static void wait_client_sees_close(int peer_port)
{
	double t0 = 0;
	for (int spin = 0;; spin++) {
		prune_clients();
		int fd = client_with_port(peer_port);
		if (fd < 0) return;
		int st = tcp_state(fd);
		if (st != TCP_ESTABLISHED) return;
		if (spin == 0) { t0 = now_real(); dnse_spins++; }
		else if (now_real() - t0 > 15.0) { mc_fail("harness:net-settle-timeout", "close not seen by client after 15 s"); return; }
		tiny_sleep();
	}
}

void dnse_wait_readable(int fd)
{
	struct pollfd p = { fd, POLLIN, 0 };
	if (fd < 0) return;
	if (__real_poll(&p, 1, 0) > 0) return;
	dnse_spins++;
	p.revents = 0;
	if (__real_poll(&p, 1, 15000) <= 0) mc_fail("harness:udp-reply-not-delivered", "fd %d not readable 15 s after a reply was sent", fd);
}

/* ------------------------------------------------------------------ collect / reply */
static int udp_take(int i, struct dnse_msg *m)
{
	struct dnse_ns *n = &dnse_ns[i];
	socklen_t sl = sizeof m->from;
	ssize_t r = recvfrom(n->udp, m->pkt, sizeof m->pkt, MSG_DONTWAIT, (struct sockaddr *)&m->from, &sl);
	if (r < 0) return 0;
	n->rcvd++;
	m->ns = i; m->tcp = -1; m->len = (int)r;
	m->decoded = dm_parse_query(m->pkt, m->len, &m->q) == 0;
	return 1;
}

int dnse_ns_collect(struct dnse_msg *out, int max)
{
	int cnt = 0;
	dnse_settle();
	for (int i = 0; i < DNSE_MAXNS; i++) {
		struct dnse_ns *n = &dnse_ns[i];
		/* UDP: everything libevent has sent must arrive */
		double t0 = 0; int waited = 0;
		for (;;) {
			while (cnt < max && udp_take(i, &out[cnt])) cnt++;
			if (n->rcvd >= n->sent || cnt >= max) break;
			if (!waited) { waited = 1; t0 = now_real(); dnse_spins++; }
			else if (now_real() - t0 > 15.0) { mc_fail("harness:udp-lost", "ns%d: %ld sent, %ld received", i, n->sent, n->rcvd); n->rcvd = n->sent; break; }
			struct pollfd p = { n->udp, POLLIN, 0 };
			__real_poll(&p, 1, 100);
		}
		/* TCP: complete length-prefixed messages, connection by connection */
		for (int c = 0; c < DNSE_MAXTCP; c++) {
			struct dnse_tcpconn *t = &n->tcp[c];
			if (!t->open) continue;
			for (;;) {
				ssize_t r = recv(t->fd, t->in + t->inlen, sizeof t->in - t->inlen, MSG_DONTWAIT);
				if (r > 0) { t->inlen += (int)r; if (t->inlen == (int)sizeof t->in) break; continue; }
				if (r == 0 || (r < 0 && errno != EAGAIN && errno != EWOULDBLOCK && errno != EINTR)) t->eof = 1;
				break;
			}
			while (t->inlen >= 2 && cnt < max) {
				int l = (t->in[0] << 8) | t->in[1];
				if (l > (int)sizeof out[cnt].pkt) { t->inlen = 0; mc_fail("harness:tcp-query-too-long", "%d", l); break; }
				if (t->inlen < 2 + l) break;
				struct dnse_msg *m = &out[cnt++];
				memset(&m->from, 0, sizeof m->from);
				m->ns = i; m->tcp = c; m->len = l;
				memcpy(m->pkt, t->in + 2, l);
				m->decoded = dm_parse_query(m->pkt, m->len, &m->q) == 0;
				memmove(t->in, t->in + 2 + l, t->inlen - 2 - l);
				t->inlen -= 2 + l;
			}
			/* the client closed (or reset) the connection and everything it sent has been handed out: release the slot */
			if (t->eof && t->inlen < 2) { close(t->fd); t->open = 0; }
		}
	}
	return cnt;
}

void dnse_reply_udp(const struct dnse_msg *q, const uint8_t *p, int len)
{
	if (__real_sendto(dnse_ns[q->ns].udp, p, len, 0, (const struct sockaddr *)&q->from, sizeof q->from) != len)
		mc_fail("harness:udp-reply-send", "%s", strerror(errno));
}

void dnse_tcp_write(int ns, int conn, const uint8_t *p, int len)
{
	struct dnse_tcpconn *t = &dnse_ns[ns].tcp[conn];
	if (!t->open) return;
	ssize_t r = send(t->fd, p, len, MSG_NOSIGNAL | MSG_DONTWAIT);
	(void)r;     /* the peer may already be gone: that is a legitimate outcome */
}

void dnse_tcp_close(int ns, int conn, int rst)
{
	struct dnse_tcpconn *t = &dnse_ns[ns].tcp[conn];
	if (!t->open) return;
	if (rst) hard_close(t->fd); else close(t->fd);
	t->open = 0;
	wait_client_sees_close(t->peer_port);
}

void dnse_listener_close(int ns)
{
	struct dnse_ns *n = &dnse_ns[ns];
	if (!n->listening) return;
	int fd;
	while ((fd = accept4(n->lis, NULL, NULL, SOCK_NONBLOCK | SOCK_CLOEXEC)) >= 0) hard_close(fd);
	n->lis_num = n->lis;
	close(n->lis); n->lis = -1; n->listening = 0;
}

long dnse_udp_sent_total(void)
{
	long t = 0;
	for (int i = 0; i < DNSE_MAXNS; i++) t += dnse_ns[i].sent;
	return t;
}

int dnse_tcp_open_conns(int ns)
{
	int k = 0;
	for (int c = 0; c < DNSE_MAXTCP; c++) k += dnse_ns[ns].tcp[c].open;
	return k;
}

/* ------------------------------------------------------------------ allocator */
#include <event2/event.h>
static long a_live;
#define MAXWATCH 16
static const void *watched[MAXWATCH]; static int nwatched;
static void *a_malloc(size_t n) { void *p = malloc(n ? n : 1); if (p) a_live++; return p; }
static void a_unwatch(const void *p) { for (int i = 0; i < nwatched; i++) if (watched[i] == p) watched[i] = NULL; }
static void *a_realloc(void *p, size_t n)
{
	if (!p) return a_malloc(n);
	if (n == 0) { a_unwatch(p); free(p); a_live--; return NULL; }
	void *q = realloc(p, n);
	if (q && q != p) a_unwatch(p);
	return q;
}
static void a_free(void *p) { if (!p) return; a_unwatch(p); a_live--; free(p); }
void dnse_alloc_install(void) { event_set_mem_functions(a_malloc, a_realloc, a_free); }
long dnse_alloc_live(void) { return a_live; }
void dnse_watch_reset(void) { nwatched = 0; }
void dnse_watch(const void *p) { if (p && nwatched < MAXWATCH) watched[nwatched++] = p; }
int dnse_is_live(const void *p) { if (!p) return 0; for (int i = 0; i < nwatched; i++) if (watched[i] == p) return 1; return 0; }
