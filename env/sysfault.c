/* see sysfault.h */
#ifndef _GNU_SOURCE
#define _GNU_SOURCE
#endif
#include "sysfault.h"
#include <errno.h>
#include <stdarg.h>
#include <stdlib.h>
#include <signal.h>
#include <fcntl.h>
#include <unistd.h>
#include <sys/types.h>
#include <sys/socket.h>
#include <sys/epoll.h>
#include <sys/eventfd.h>
#include <sys/signalfd.h>
#include <sys/sendfile.h>
#include <sys/ioctl.h>
#include <sys/uio.h>
#include <sys/stat.h>
#include <sys/mman.h>
#include <event2/event.h>

const char *const sf_names[SF_N] = {
#define X(n) #n,
	SYSFAULT_LIST(X)
#undef X
};

struct arm { int which; long k; int err; int used; };
static struct arm arms[SF_MAX_ARMS]; static int n_arms;
static long alloc_arms[SF_MAX_ARMS]; static int n_alloc_arms;
static long counts[SF_N], alloc_count, live;
static int window, fired;

void sf_reset(void)
{
	n_arms = 0; n_alloc_arms = 0; alloc_count = 0; window = 0; fired = 0;
	for (int i = 0; i < SF_N; i++) counts[i] = 0;
}
void sf_window(int open) { window += open ? 1 : -1; if (window < 0) window = 0; }
int sf_window_depth(void) { return window; }
int sf_arm_sys(int which, long kth, int err)
{
	if (n_arms >= SF_MAX_ARMS) return -1;
	arms[n_arms].which = which; arms[n_arms].k = kth; arms[n_arms].err = err; arms[n_arms].used = 0; n_arms++;
	return 0;
}
int sf_arm_alloc(long nth)
{
	if (n_alloc_arms >= SF_MAX_ARMS) return -1;
	alloc_arms[n_alloc_arms++] = nth;
	return 0;
}
long sf_sys_count(int which) { return counts[which]; }
long sf_alloc_count(void) { return alloc_count; }
int sf_fired(void) { return fired; }

/* returns errno to inject, or 0 */
static int hit(int which)
{
	if (!window) return 0;
	long c = ++counts[which];
	for (int i = 0; i < n_arms; i++)
		if (arms[i].which == which && arms[i].k == c && !arms[i].used) { arms[i].used = 1; fired++; return arms[i].err; }
	return 0;
}
#define INJECT(id, failval) do { int e_ = hit(SF_##id); if (e_) { errno = e_; return failval; } } while (0)

/* ---- allocator ---- */
static int alloc_should_fail(void)
{
	if (!window) return 0;
	long c = ++alloc_count;
	for (int i = 0; i < n_alloc_arms; i++)
		if (alloc_arms[i] == c) { fired++; return 1; }
	return 0;
}
static void *m_malloc(size_t n)
{
	if (alloc_should_fail()) return NULL;
	void *p = malloc(n ? n : 1);
	if (p) live++;
	return p;
}
static void *m_realloc(void *p, size_t n)
{
	if (!p) return m_malloc(n);
	if (n == 0) { free(p); live--; return NULL; }
	if (alloc_should_fail()) return NULL;
	return realloc(p, n);
}
static void m_free(void *p)
{
	if (!p) return;
	live--;
	free(p);
}
void sf_alloc_install(void) { event_set_mem_functions(m_malloc, m_realloc, m_free); }
long sf_alloc_live(void) { return live; }
void sf_free(void *p) { m_free(p); }
void *sf_malloc(size_t n) { void *p = malloc(n ? n : 1); if (p) live++; return p; }

/* ---- system calls ---- */
int __real_epoll_create1(int);
int __wrap_epoll_create1(int f) { INJECT(epoll_create1, -1); return __real_epoll_create1(f); }
int __real_epoll_ctl(int, int, int, struct epoll_event *);
int __wrap_epoll_ctl(int e, int op, int fd, struct epoll_event *ev) { INJECT(epoll_ctl, -1); return __real_epoll_ctl(e, op, fd, ev); }
int __real_socket(int, int, int);
int __wrap_socket(int d, int t, int p) { INJECT(socket, -1); return __real_socket(d, t, p); }
int __real_socketpair(int, int, int, int[2]);
int __wrap_socketpair(int d, int t, int p, int sv[2]) { INJECT(socketpair, -1); return __real_socketpair(d, t, p, sv); }
int __real_pipe2(int[2], int);
int __wrap_pipe2(int fd[2], int fl) { INJECT(pipe2, -1); return __real_pipe2(fd, fl); }
int __real_eventfd(unsigned, int);
int __wrap_eventfd(unsigned v, int fl) { INJECT(eventfd, -1); return __real_eventfd(v, fl); }
int __real_accept4(int, struct sockaddr *, socklen_t *, int);
int __wrap_accept4(int s, struct sockaddr *a, socklen_t *l, int fl) { INJECT(accept4, -1); return __real_accept4(s, a, l, fl); }
int __real_connect(int, const struct sockaddr *, socklen_t);
int __wrap_connect(int s, const struct sockaddr *a, socklen_t l) { INJECT(connect, -1); return __real_connect(s, a, l); }
int __real_bind(int, const struct sockaddr *, socklen_t);
int __wrap_bind(int s, const struct sockaddr *a, socklen_t l) { INJECT(bind, -1); return __real_bind(s, a, l); }
int __real_listen(int, int);
int __wrap_listen(int s, int b) { INJECT(listen, -1); return __real_listen(s, b); }
int __real_getsockname(int, struct sockaddr *, socklen_t *);
int __wrap_getsockname(int s, struct sockaddr *a, socklen_t *l) { INJECT(getsockname, -1); return __real_getsockname(s, a, l); }
int __real_getpeername(int, struct sockaddr *, socklen_t *);
int __wrap_getpeername(int s, struct sockaddr *a, socklen_t *l) { INJECT(getpeername, -1); return __real_getpeername(s, a, l); }
int __real_getsockopt(int, int, int, void *, socklen_t *);
int __wrap_getsockopt(int s, int lv, int o, void *v, socklen_t *l) { INJECT(getsockopt, -1); return __real_getsockopt(s, lv, o, v, l); }
int __real_setsockopt(int, int, int, const void *, socklen_t);
int __wrap_setsockopt(int s, int lv, int o, const void *v, socklen_t l) { INJECT(setsockopt, -1); return __real_setsockopt(s, lv, o, v, l); }
int __real_fcntl(int, int, ...);
int __wrap_fcntl(int fd, int cmd, ...)
{
	va_list ap; void *arg;
	va_start(ap, cmd); arg = va_arg(ap, void *); va_end(ap);
	INJECT(fcntl, -1);
	return __real_fcntl(fd, cmd, arg);
}
int __real_ioctl(int, unsigned long, ...);
int __wrap_ioctl(int fd, unsigned long req, ...)
{
	va_list ap; void *arg;
	va_start(ap, req); arg = va_arg(ap, void *); va_end(ap);
	INJECT(ioctl, -1);
	return __real_ioctl(fd, req, arg);
}
ssize_t __real_read(int, void *, size_t);
ssize_t __wrap_read(int fd, void *b, size_t n) { INJECT(read, -1); return __real_read(fd, b, n); }
ssize_t __real_write(int, const void *, size_t);
ssize_t __wrap_write(int fd, const void *b, size_t n) { INJECT(write, -1); return __real_write(fd, b, n); }
ssize_t __real_readv(int, const struct iovec *, int);
ssize_t __wrap_readv(int fd, const struct iovec *v, int n) { INJECT(readv, -1); return __real_readv(fd, v, n); }
ssize_t __real_writev(int, const struct iovec *, int);
ssize_t __wrap_writev(int fd, const struct iovec *v, int n) { INJECT(writev, -1); return __real_writev(fd, v, n); }
ssize_t __real_sendfile(int, int, off_t *, size_t);
ssize_t __wrap_sendfile(int o, int i, off_t *off, size_t n) { INJECT(sendfile, -1); return __real_sendfile(o, i, off, n); }
ssize_t __real_sendto(int, const void *, size_t, int, const struct sockaddr *, socklen_t);
ssize_t __wrap_sendto(int s, const void *b, size_t n, int f, const struct sockaddr *a, socklen_t l) { INJECT(sendto, -1); return __real_sendto(s, b, n, f, a, l); }
ssize_t __real_recvfrom(int, void *, size_t, int, struct sockaddr *, socklen_t *);
ssize_t __wrap_recvfrom(int s, void *b, size_t n, int f, struct sockaddr *a, socklen_t *l) { INJECT(recvfrom, -1); return __real_recvfrom(s, b, n, f, a, l); }
int __real_open(const char *, int, ...);
int __wrap_open(const char *p, int fl, ...)
{
	va_list ap; int mode;
	va_start(ap, fl); mode = va_arg(ap, int); va_end(ap);
	INJECT(open, -1);
	return __real_open(p, fl, mode);
}
int __real_fstat(int, struct stat *);
int __wrap_fstat(int fd, struct stat *st) { INJECT(fstat, -1); return __real_fstat(fd, st); }
void *__real_mmap(void *, size_t, int, int, int, off_t);
void *__wrap_mmap(void *a, size_t n, int pr, int fl, int fd, off_t off) { INJECT(mmap, MAP_FAILED); return __real_mmap(a, n, pr, fl, fd, off); }
void *__wrap_mmap64(void *a, size_t n, int pr, int fl, int fd, off_t off) { INJECT(mmap, MAP_FAILED); return __real_mmap(a, n, pr, fl, fd, off); }
int __real_signalfd(int, const sigset_t *, int);
int __wrap_signalfd(int fd, const sigset_t *m, int fl) { INJECT(signalfd, -1); return __real_signalfd(fd, m, fl); }
int __real_sigaction(int, const struct sigaction *, struct sigaction *);
int __wrap_sigaction(int s, const struct sigaction *a, struct sigaction *o) { INJECT(sigaction, -1); return __real_sigaction(s, a, o); }
