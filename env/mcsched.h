/* Preemption-bounded cooperative scheduler for real pthreads (C09).
 *
 * Exactly one managed thread runs at a time.  Scheduling points: before every
 * lock acquisition that is not a recursive re-entry, condition waits, the
 * wrapped backend wait (when it would block), joins, predicate waits, thread
 * exit and explicit sched_yield_point() calls.  At each point the next thread
 * is chosen with mc_choose(); switching away from a thread that could continue
 * costs one preemption (deviation), a forced switch is free.  Virtual time
 * (env/vclock.c) advances only when no thread is enabled: then the blocked
 * wait with the earliest deadline times out.
 *
 * Link with env/vclock.c and its wraps.  Call sched_install() once per process
 * (cfg.init) before any libevent object is created. */
#ifndef MCSCHED_H
#define MCSCHED_H
#include <stdint.h>

void sched_install(void);              /* evthread lock/cond/id callbacks + vclock hooks */
void sched_begin(void);                /* start of an execution: calling thread becomes thread 0 */
int  sched_spawn(void (*fn)(void *), void *arg);   /* returns thread id (1..) */
void sched_join(int id);               /* scheduling point; blocks until thread id is done */
void sched_yield_point(void);          /* explicit scheduling point (e.g. inside callbacks) */
void sched_wait_until(int (*pred)(void *), void *arg); /* block until pred() is true */
void sched_end(void);                  /* end of execution: all threads joined; checks lock arena */
int  sched_self(void);
int  sched_locks_held(void);           /* number of harness locks currently owned by anybody */
long sched_points(void);               /* scheduling points met in this execution */
long sched_switches(void);
/* 1 if thread id is parked in the backend wait with a deadline at least min_deadline_us away (or infinite) */
int  sched_thread_idle(int id, int64_t min_deadline_us);
#endif
