/* dnse2e_env — environment for the end-to-end DNS harnesses (C34, C38):
 *   - in-process scripted nameservers on real loopback UDP sockets + TCP listeners
 *     (one pair per nameserver, same port number for UDP and TCP, created once
 *     per worker and reused by every execution),
 *   - --wrap=evutil_secure_rng_get_bytes : harness-chosen transaction ids,
 *   - --wrap=sendto : counts datagrams libevent sent to a fake nameserver, so the
 *     harness can wait (real time, bounded) until each of them has been received,
 *   - --wrap=socket : SO_LINGER{1,0} on libevent's TCP client sockets (no
 *     TIME_WAIT pile-up; invisible to libevent) and a table of those fds,
 *   - dnse_settle(): waits until no loopback TCP traffic is in flight.
 * Loopback delivery is synchronous in this sandbox; the waits are a safety net
 * that keeps executions deterministic should the kernel defer softirq work.
 * Link with: --wrap=evutil_secure_rng_get_bytes --wrap=sendto --wrap=socket */
#ifndef DNSE2E_ENV_H
#define DNSE2E_ENV_H
#include <stdint.h>
#include <netinet/in.h>
#include "dnsmini.h"

#define DNSE_MAXNS 2
#define DNSE_MAXTCP 6

/* ---- RNG ---- */
/* mode 0: ids 0x1000, 0x1001, ... (no collisions);
 * mode 1: 0x2fff, 0x2fff, 0xffff, 0x2ffe, 0x2ffe, 0xffff, ...: every id is offered twice,
 *         followed by 0xffff (forces a collision with the id picked just before and
 *         exercises the 0xffff exclusion); descending, so a later request sits in an
 *         earlier req_heads bucket than its predecessor;
 * mode 2: like mode 1 but ascending from 0x2000. */
void dnse_rng_reset(int mode);
extern unsigned long dnse_rng_id_calls;

/* ---- fake nameservers ---- */
struct dnse_tcpconn { int fd; int open; int peer_port; uint8_t in[1400]; int inlen; int eof; };
struct dnse_ns {
	int udp, lis, port, listening, lis_num;
	struct dnse_tcpconn tcp[DNSE_MAXTCP];
	long sent, rcvd;             /* datagrams libevent sent to / harness received on this ns */
	long accepted;
};
extern struct dnse_ns dnse_ns[DNSE_MAXNS];

struct dnse_msg {
	int ns;                      /* nameserver index */
	int tcp;                     /* -1: UDP datagram, else index into dnse_ns[ns].tcp */
	struct sockaddr_in from;     /* UDP source */
	uint8_t pkt[1024]; int len;
	int decoded;                 /* dm_parse_query succeeded */
	struct dm_query q;
};

int  dnse_ns_init(void);                     /* once per worker; 0 ok */
void dnse_ns_begin(void);                    /* per execution */
void dnse_ns_end(void);                      /* per execution: close accepted connections, reopen closed listeners, drain */
void dnse_ns_sockaddr(int ns, struct sockaddr_in *sin);
/* Collect every message currently pending at the nameservers, in a fixed order
 * (ns0 UDP fifo, ns0 TCP by connection, ns1 ...).  Accepts new TCP connections.
 * Waits (bounded, real time) for datagrams libevent already sent. */
int  dnse_ns_collect(struct dnse_msg *out, int max);
void dnse_reply_udp(const struct dnse_msg *q, const uint8_t *p, int len);
void dnse_tcp_write(int ns, int conn, const uint8_t *p, int len);
void dnse_tcp_close(int ns, int conn, int rst);   /* rst=0: orderly FIN */
void dnse_listener_close(int ns);                 /* connection attempts are refused until dnse_ns_end() */
int  dnse_tcp_open_conns(int ns);
/* wait until nothing is in flight on loopback TCP (handshakes, unacked bytes, FIN/RST) */
void dnse_settle(void);
/* wait (bounded, real time) until fd is readable; used after sending a UDP reply to libevent's socket */
void dnse_wait_readable(int fd);
/* called from the sendto wrap for every datagram libevent sends to a fake nameserver (before it is sent) */
extern void (*dnse_udp_send_hook)(int ns, const void *pkt, int len);
extern long dnse_stream_sockets;                  /* TCP sockets libevent created (never reset) */
long dnse_udp_sent_total(void);                   /* datagrams libevent sent to any fake nameserver in this execution */
extern long dnse_spins;                           /* how often a wait actually had to wait */

/* ---- allocator (replaces mcx_alloc_install for these harnesses): live count + liveness of watched blocks ---- */
void dnse_alloc_install(void);
long dnse_alloc_live(void);
void dnse_watch_reset(void);
void dnse_watch(const void *p);            /* remember p (currently allocated through the library allocator) */
int  dnse_is_live(const void *p);          /* 1 while a watched block has not been freed */
#endif
