/* Harness locks for libevent: see locks.h. */
#include "locks.h"
#include "mcx.h"
#include <event2/thread.h>
#include <stdio.h>
#include <stdlib.h>
#include <string.h>

struct hlock {
	int in_use;
	int permanent;
	unsigned type;           /* EVTHREAD_LOCKTYPE_* given at allocation */
	int depth;
	unsigned long owner;
	const char *alloc_api;   /* API call during which it was allocated */
};
struct hcond { int in_use; int permanent; };

static struct hlock arena[LOCKS_MAX];
static struct hcond conds[LOCKS_CONDS_MAX];
static int installed, debugging, quiet;
static const char *prefix = "lock";
static int held_total;
static long n_ops, n_allocs;

#define API_STACK 32
static const char *api_stack[API_STACK];
static int api_held[API_STACK];
static int api_depth;

const char *locks_current_api(void) { return api_depth > 0 ? api_stack[api_depth < API_STACK ? api_depth - 1 : API_STACK - 1] : "(none)"; }
int locks_api_depth(void) { return api_depth; }
int locks_held_total(void) { return held_total; }
long locks_ops(void) { return n_ops; }
long locks_allocs(void) { return n_allocs; }
int locks_debugging(void) { return debugging; }
void locks_set_quiet(int q) { quiet = q; }

static void report(const char *what, const char *fmt, int idx)
{
	char key[160];
	if (quiet) return;
	snprintf(key, sizeof key, "%s/%s/%s", prefix, what, locks_current_api());
	mc_fail(key, fmt, idx, idx >= 0 && idx < LOCKS_MAX && arena[idx].alloc_api ? arena[idx].alloc_api : "?");
}

static int index_of(void *p)
{
	struct hlock *l = p;
	if (l < arena || l >= arena + LOCKS_MAX) return -1;
	return (int)(l - arena);
}

static void *l_alloc(unsigned locktype)
{
	for (int i = 0; i < LOCKS_MAX; i++) {
		if (!arena[i].in_use) {
			arena[i].in_use = 1; arena[i].permanent = 0; arena[i].type = locktype;
			arena[i].depth = 0; arena[i].owner = 0; arena[i].alloc_api = locks_current_api();
			n_allocs++;
			return &arena[i];
		}
	}
	return NULL; /* arena exhausted: libevent sees an allocation failure */
}

static void l_free(void *p, unsigned locktype)
{
	int i = index_of(p);
	(void)locktype;
	if (i < 0) { report("free-foreign-lock", "lock %d is not from the harness arena (allocated in %s)", -1); return; }
	if (!arena[i].in_use) { report("use-of-freed-lock", "free of lock #%d which is not allocated (last allocated in %s)", i); return; }
	if (arena[i].depth > 0) {
		report("free-held-lock", "lock #%d (allocated in %s) freed while held", i);
		held_total -= arena[i].depth;
	}
	arena[i].in_use = 0; arena[i].depth = 0; arena[i].owner = 0;
}

static int l_lock(unsigned mode, void *p)
{
	int i = index_of(p);
	if (i < 0) { report("use-of-foreign-lock", "lock %d is not from the harness arena (%s)", -1); return 0; }
	struct hlock *l = &arena[i];
	if (!l->in_use) { report("use-of-freed-lock", "lock of #%d which is not allocated (last allocated in %s)", i); return 0; }
	if (l->depth > 0 && !(l->type & EVTHREAD_LOCKTYPE_RECURSIVE)) {
		if (mode & EVTHREAD_TRY) return 1;  /* would not be acquired */
		/* a real non-recursive mutex would deadlock here */
		report("relock-nonrecursive", "non-recursive lock #%d (allocated in %s) locked again by its holder", i);
	}
	l->depth++; l->owner = 1; held_total++; n_ops++;
	return 0;
}

static int l_unlock(unsigned mode, void *p)
{
	int i = index_of(p);
	(void)mode;
	if (i < 0) { report("use-of-foreign-lock", "lock %d is not from the harness arena (%s)", -1); return 0; }
	struct hlock *l = &arena[i];
	if (!l->in_use) { report("use-of-freed-lock", "unlock of #%d which is not allocated (last allocated in %s)", i); return 0; }
	if (l->depth <= 0) {
		report("unlock-not-held", "unlock of lock #%d (allocated in %s) which is not held", i);
		return 0;
	}
	l->depth--; held_total--;
	if (l->depth == 0) l->owner = 0;
	return 0;
}

static void *c_alloc(unsigned condtype)
{
	(void)condtype;
	for (int i = 0; i < LOCKS_CONDS_MAX; i++)
		if (!conds[i].in_use) { conds[i].in_use = 1; conds[i].permanent = 0; return &conds[i]; }
	return NULL;
}
static void c_free(void *p)
{
	struct hcond *c = p;
	if (c >= conds && c < conds + LOCKS_CONDS_MAX) c->in_use = 0;
}
static int c_signal(void *p, int broadcast) { (void)p; (void)broadcast; return 0; }
static int c_wait(void *c, void *lock, const struct timeval *tv)
{
	(void)c; (void)lock;
	if (tv) return 1; /* timed wait: report a timeout, nobody can signal */
	/* Single-threaded run: nobody can ever signal this condition. */
	report("cond-wait-would-block", "condition wait (lock %d, %s) in a single-threaded run: would block forever", index_of(lock));
	fflush(NULL);
	abort();
}

static unsigned long id_fn(void) { return 1; }

void locks_install(const char *key_prefix, int with_debug)
{
	static const struct evthread_lock_callbacks lcb = {
		EVTHREAD_LOCK_API_VERSION, EVTHREAD_LOCKTYPE_RECURSIVE, l_alloc, l_free, l_lock, l_unlock
	};
	static const struct evthread_condition_callbacks ccb = {
		EVTHREAD_CONDITION_API_VERSION, c_alloc, c_free, c_signal, c_wait
	};
	if (installed) return;
	installed = 1;
	if (key_prefix) prefix = key_prefix;
	if (evthread_set_lock_callbacks(&lcb) < 0 || evthread_set_condition_callbacks(&ccb) < 0) {
		fprintf(stderr, "locks: cannot install lock callbacks\n");
		abort();
	}
	evthread_set_id_callback(id_fn);
	if (with_debug) {
		/* wraps the callbacks just installed (evthread.c case 2: existing
		 * global locks are re-created as debug locks over harness locks) */
		evthread_enable_lock_debugging();
		debugging = 1;
	}
	locks_seal_permanent();
}

void locks_seal_permanent(void)
{
	for (int i = 0; i < LOCKS_MAX; i++) if (arena[i].in_use) arena[i].permanent = 1;
	for (int i = 0; i < LOCKS_CONDS_MAX; i++) if (conds[i].in_use) conds[i].permanent = 1;
}

void locks_begin_execution(void)
{
	for (int i = 0; i < LOCKS_MAX; i++) {
		if (arena[i].in_use && !arena[i].permanent) arena[i].in_use = 0;
		arena[i].depth = 0; arena[i].owner = 0;
	}
	for (int i = 0; i < LOCKS_CONDS_MAX; i++)
		if (conds[i].in_use && !conds[i].permanent) conds[i].in_use = 0;
	held_total = 0; n_ops = 0; n_allocs = 0; api_depth = 0;
}

int locks_live(void)
{
	int n = 0;
	for (int i = 0; i < LOCKS_MAX; i++) if (arena[i].in_use && !arena[i].permanent) n++;
	return n;
}
int locks_conds_live(void)
{
	int n = 0;
	for (int i = 0; i < LOCKS_CONDS_MAX; i++) if (conds[i].in_use && !conds[i].permanent) n++;
	return n;
}

void locks_release_all(void)
{
	for (int i = 0; i < LOCKS_MAX; i++) { arena[i].depth = 0; arena[i].owner = 0; }
	held_total = 0;
}

void locks_describe_held(char *buf, int n)
{
	int o = 0;
	buf[0] = 0;
	for (int i = 0; i < LOCKS_MAX && o < n - 80; i++)
		if (arena[i].in_use && arena[i].depth > 0)
			o += snprintf(buf + o, n - o, "#%d(%s,depth %d,allocated in %s) ", i,
			    (arena[i].type & EVTHREAD_LOCKTYPE_RECURSIVE) ? "recursive" : "non-recursive",
			    arena[i].depth, arena[i].alloc_api ? arena[i].alloc_api : "?");
}

void locks_enter(const char *api)
{
	if (api_depth < API_STACK) { api_stack[api_depth] = api; api_held[api_depth] = held_total; }
	api_depth++;
}

int locks_leave(void)
{
	int rc = 0;
	if (api_depth <= 0) return 0;
	if (api_depth <= API_STACK) {
		int before = api_held[api_depth - 1];
		if (held_total != before) {
			char key[160], d[600];
			locks_describe_held(d, sizeof d);
			snprintf(key, sizeof key, "%s/lock-held-after/%s", prefix, api_stack[api_depth - 1]);
			if (!quiet) mc_fail(key, "%d lock(s) held when %s returned, %d when it was entered; held now: %s",
			    held_total, api_stack[api_depth - 1], before, d);
			rc = 1;
			if (api_depth == 1) locks_release_all();
		}
	}
	api_depth--;
	return rc;
}
