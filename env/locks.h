/* Harness lock implementation for libevent (family "locklife", property C08; also
 * linked into the C10 harness as an always-on monitor).
 *
 * Installed through evthread_set_lock_callbacks / _condition_callbacks /
 * _id_callback.  Single-threaded: a lock never blocks.  Every lock and
 * condition comes from a fixed arena (lowest free slot first) so addresses are
 * stable across executions (EVLOCK_SORTLOCKS_ orders by address).
 *
 * Per lock: type (recursive or not), owner, depth.  Reported immediately with
 * mc_fail (key names the API call under test, see locks_enter):
 *     <prefix>/unlock-not-held/<api>      unlock of a lock with depth 0
 *     <prefix>/relock-nonrecursive/<api>  second lock of a non-recursive lock
 *     <prefix>/free-held-lock/<api>       lock freed while held
 *     <prefix>/use-of-freed-lock/<api>    lock/unlock on a slot that is not allocated
 *     <prefix>/cond-wait-would-block/<api>  condition wait in a single-threaded run (= deadlock)
 * and by locks_leave():
 *     <prefix>/lock-held-after/<api>      more (or fewer) locks held when the call returns than when it was entered
 */
#ifndef VERIF_LOCKS_H
#define VERIF_LOCKS_H

#define LOCKS_MAX 2048
#define LOCKS_CONDS_MAX 512

/* Install the callbacks (once per process; repeated calls are no-ops).
 * with_debug != 0: additionally evthread_enable_lock_debugging() on top (all
 * harness locks are then allocated recursive by libevent's debug wrapper, which
 * itself asserts non-recursive discipline and arms EVLOCK_ASSERT_LOCKED). */
void locks_install(const char *key_prefix, int with_debug);
/* Locks allocated so far become permanent (libevent's global locks). */
void locks_seal_permanent(void);
/* Start of an execution: every non-permanent lock/condition slot is freed,
 * every depth is zero, api stack empty. */
void locks_begin_execution(void);

int  locks_held_total(void);       /* sum of depths over all locks */
int  locks_live(void);             /* allocated non-permanent locks */
int  locks_conds_live(void);
long locks_ops(void);              /* lock acquisitions since begin_execution */
long locks_allocs(void);           /* lock allocations since begin_execution */
void locks_release_all(void);      /* force every depth to 0 (after a reported leak) */
void locks_describe_held(char *buf, int n); /* "#3(nonrec,depth1,from event_base_new) ..." */

/* API-call bracket.  locks_enter pushes the name (string literal) and the
 * current held total; locks_leave pops and compares: a difference is reported
 * as <prefix>/lock-held-after/<api>; at the outermost level the leaked locks
 * are then force-released so that the rest of the scenario is still checked.
 * Returns 0 if balanced. */
void locks_enter(const char *api);
int  locks_leave(void);
const char *locks_current_api(void);   /* innermost name, or "(none)" */
int  locks_api_depth(void);

/* quiet != 0: misuse / imbalance is still tracked but not reported (harness warm-up runs) */
void locks_set_quiet(int quiet);
/* libevent lock debugging enabled on top? */
int  locks_debugging(void);
#endif
