/* Free-running implementation of the mcsched.h API: real concurrency, libevent's own
 * pthread locks.  Used for the supplementary ThreadSanitizer pass of C09: the same
 * driver bodies run without the serialising scheduler (whose hand-offs would be
 * happens-before edges hiding every race).  Compiled WITHOUT -fsanitize=thread
 * (harness_san: none) so only libevent's own accesses are checked. */
#ifndef _GNU_SOURCE
#define _GNU_SOURCE
#endif
#include "mcsched.h"
#include "vclock.h"
#include "mcx.h"
#include <pthread.h>
#include <time.h>
#include <sys/syscall.h>
#include <unistd.h>
#include <event2/thread.h>

#define MAXT 8
static pthread_t pts[MAXT]; static int nth;
static struct { void (*fn)(void *); void *arg; int id; } starts[MAXT];
static __thread int self;
static unsigned jitter_seed; static long points;

static void nap(long us)
{
	struct timespec ts = { 0, us * 1000 };
	syscall(SYS_nanosleep, &ts, NULL);
}
static int64_t free_block(int64_t timeout_us)
{
	/* nothing ready: really wait a little, and let virtual time follow (never past the timeout) */
	int64_t step = 200;
	nap(100);
	if (timeout_us >= 0 && timeout_us < step) step = timeout_us;
	return step;
}
void sched_set_jitter(unsigned seed) { jitter_seed = seed * 2654435761u + 12345; }
void sched_install(void) { evthread_use_pthreads(); vclock_block_hook = free_block; }
void sched_begin(void) { nth = 1; self = 0; points = 0; }
static void *tramp(void *p) { int i = (int)(long)p; self = starts[i].id; starts[i].fn(starts[i].arg); return NULL; }
int sched_spawn(void (*fn)(void *), void *arg)
{
	int id = nth++;
	starts[id].fn = fn; starts[id].arg = arg; starts[id].id = id;
	pthread_create(&pts[id], NULL, tramp, (void *)(long)id);
	return id;
}
void sched_join(int id) { pthread_join(pts[id], NULL); }
void sched_yield_point(void)
{
	unsigned r = __sync_add_and_fetch(&jitter_seed, 0x9e3779b9u);
	r ^= r >> 15; r *= 2246822519u; r ^= r >> 13;
	__sync_fetch_and_add(&points, 1);
	if ((r & 3) == 0) nap(r % 60); else sched_yield();
}
void sched_wait_until(int (*pred)(void *), void *arg)
{
	for (;;) { __sync_synchronize(); if (pred(arg)) return; nap(50); }
}
/* free-running approximation: 'idle' once it has been asked often enough (~5 ms of naps) */
static int idle_asks;
int sched_thread_idle(int id, int64_t d) { (void)id; (void)d; return ++idle_asks % 100 == 0; }
void sched_end(void) { nth = 1; }
int sched_self(void) { return self; }
int sched_locks_held(void) { return 0; }
long sched_points(void) { return points; }
long sched_switches(void) { return 0; }
