#ifndef _GNU_SOURCE
#define _GNU_SOURCE
#endif
#include "mcsched.h"
#include "vclock.h"
#include "mcx.h"
#include <pthread.h>
#include <poll.h>
#include <stdio.h>
#include <stdlib.h>
#include <string.h>
#include <unistd.h>
#include <sys/syscall.h>
#include <event2/thread.h>
#include <event2/event.h>

#define MAXT 8
#define MAXLOCKS 512
#define MAXCONDS 128

enum { T_UNUSED, T_RUNNABLE, T_BLOCKED_LOCK, T_BLOCKED_COND, T_BLOCKED_WAIT, T_BLOCKED_JOIN, T_BLOCKED_PRED, T_DONE };

struct slock { int inuse, owner, count, recursive; };
struct scond { int inuse; };

struct sthread {
	int state;
	pthread_t pt;
	pthread_cond_t cv;
	void (*fn)(void *); void *arg;
	struct slock *want;
	struct scond *cond; int signalled;
	int epfd; int64_t deadline; int has_deadline; int woke_by_timeout;
	int join_target;
	int (*pred)(void *); void *pred_arg;
};

static pthread_mutex_t big = PTHREAD_MUTEX_INITIALIZER;
static struct sthread th[MAXT];
static int nth, cur;
static __thread int self;
static struct slock locks[MAXLOCKS];
static struct scond conds[MAXCONDS];
static long npoints, nswitches;
static __thread int last_epfd = -1;

int sched_self(void) { return self; }
long sched_points(void) { return npoints; }
long sched_switches(void) { return nswitches; }

static int fd_ready(int epfd)
{
	struct pollfd p = { epfd, POLLIN, 0 };
	if (epfd < 0) return 0;
	return syscall(SYS_poll, &p, 1, 0) > 0;
}

static int enabled(int t)
{
	struct sthread *s = &th[t];
	switch (s->state) {
	case T_RUNNABLE: return 1;
	case T_BLOCKED_LOCK: return s->want->owner < 0;
	case T_BLOCKED_COND: return s->signalled || s->woke_by_timeout;
	case T_BLOCKED_WAIT: return s->woke_by_timeout || fd_ready(s->epfd);
	case T_BLOCKED_JOIN: return th[s->join_target].state == T_DONE;
	case T_BLOCKED_PRED: return s->pred(s->pred_arg);
	default: return 0;
	}
}

static const char *state_name(int st)
{
	static const char *n[] = { "unused", "runnable", "blocked-on-lock", "blocked-on-cond", "blocked-in-backend-wait", "joining", "waiting-for-predicate", "done" };
	return n[st];
}

/* called with big held; returns when this thread is the running one and enabled.
 * exiting != 0: the caller is finished and only hands the token over. */
static void reschedule(int exiting)
{
	int list[MAXT], n = 0, self_enabled;
	npoints++;
	self_enabled = !exiting && enabled(self);
	if (self_enabled) list[n++] = self;
	for (int t = 0; t < nth; t++) if (t != self && enabled(t)) list[n++] = t;
	if (n == 0) {
		/* nothing can run: let the earliest finite deadline expire */
		int best = -1;
		for (int t = 0; t < nth; t++) {
			struct sthread *s = &th[t];
			if ((s->state == T_BLOCKED_WAIT || s->state == T_BLOCKED_COND) && s->has_deadline)
				if (best < 0 || s->deadline < th[best].deadline) best = t;
		}
		if (best < 0) {
			char buf[400]; int o = 0; int alldone = 1;
			for (int t = 0; t < nth; t++) {
				if (th[t].state != T_DONE && !(exiting && t == self)) alldone = 0;
				o += snprintf(buf + o, sizeof buf - o, "t%d:%s ", t, exiting && t == self ? "exiting" : state_name(th[t].state));
			}
			if (alldone) return;   /* last thread leaving */
			mc_fail("C09/deadlock", "no thread can make progress and no timeout is pending: %s", buf);
			mc_abort_execution();
		}
		if (th[best].deadline > vclock_us) vclock_us = th[best].deadline;
		th[best].woke_by_timeout = 1;
		list[n++] = best;
	}
	int idx = n > 1 ? mc_choose(n, self_enabled ? 1 : 0, "sched") : 0;
	int next = list[idx];
	if (next == self) return;
	nswitches++;
	cur = next;
	pthread_cond_signal(&th[next].cv);
	if (exiting) return;
	while (cur != self) pthread_cond_wait(&th[self].cv, &big);
}

/* ---- locks ---- */
static void *l_alloc(unsigned locktype)
{
	for (int i = 0; i < MAXLOCKS; i++) if (!locks[i].inuse) {
		locks[i].inuse = 1; locks[i].owner = -1; locks[i].count = 0;
		locks[i].recursive = (locktype & EVTHREAD_LOCKTYPE_RECURSIVE) != 0;
		return &locks[i];
	}
	mc_fail("harness:lock-arena-exhausted", "more than %d locks", MAXLOCKS);
	return NULL;
}
static void l_free(void *l_, unsigned locktype)
{
	struct slock *l = l_; (void)locktype;
	if (l->owner >= 0) mc_fail("C09/lock-freed-while-held", "lock freed while owned by t%d", l->owner);
	l->inuse = 0;
}
static int l_lock(unsigned mode, void *l_)
{
	struct slock *l = l_;
	if (l->owner == self) {
		if (!l->recursive) { mc_fail("C09/relock-nonrecursive", "t%d re-enters a non-recursive lock", self); return 0; }
		l->count++;
		return 0;
	}
	if (mode & EVTHREAD_TRY) {
		if (l->owner >= 0) return 1;
		l->owner = self; l->count = 1;
		return 0;
	}
	pthread_mutex_lock(&big);
	th[self].want = l; th[self].state = T_BLOCKED_LOCK;
	reschedule(0);
	th[self].state = T_RUNNABLE; th[self].want = NULL;
	l->owner = self; l->count = 1;
	pthread_mutex_unlock(&big);
	return 0;
}
static int l_unlock(unsigned mode, void *l_)
{
	struct slock *l = l_; (void)mode;
	if (l->owner != self) { mc_fail("C09/unlock-not-held", "t%d unlocks a lock owned by %d", self, l->owner); return 0; }
	if (--l->count == 0) l->owner = -1;
	return 0;
}

/* ---- conditions ---- */
static void *c_alloc(unsigned t)
{
	(void)t;
	for (int i = 0; i < MAXCONDS; i++) if (!conds[i].inuse) { conds[i].inuse = 1; return &conds[i]; }
	mc_fail("harness:cond-arena-exhausted", "more than %d conds", MAXCONDS);
	return NULL;
}
static void c_free(void *c) { ((struct scond *)c)->inuse = 0; }
static int c_signal(void *c, int broadcast)
{
	for (int t = 0; t < nth; t++)
		if (th[t].state == T_BLOCKED_COND && th[t].cond == c && !th[t].signalled) {
			th[t].signalled = 1;
			if (!broadcast) break;
		}
	return 0;
}
static int c_wait(void *c, void *l_, const struct timeval *tv)
{
	struct slock *l = l_;
	int saved, timed_out;
	if (l->owner != self) { mc_fail("C09/cond-wait-without-lock", "t%d waits on a condition without holding its lock", self); return -1; }
	saved = l->count; l->count = 0; l->owner = -1;
	pthread_mutex_lock(&big);
	th[self].state = T_BLOCKED_COND; th[self].cond = c; th[self].signalled = 0; th[self].woke_by_timeout = 0;
	th[self].has_deadline = tv != NULL;
	if (tv) th[self].deadline = vclock_us + (int64_t)tv->tv_sec * 1000000 + tv->tv_usec;
	reschedule(0);
	timed_out = !th[self].signalled;
	th[self].has_deadline = 0; th[self].woke_by_timeout = 0; th[self].cond = NULL;
	/* re-acquire */
	th[self].want = l; th[self].state = T_BLOCKED_LOCK;
	reschedule(0);
	th[self].state = T_RUNNABLE; th[self].want = NULL;
	l->owner = self; l->count = saved;
	pthread_mutex_unlock(&big);
	return timed_out ? 1 : 0;
}

static unsigned long id_fn(void) { return (unsigned long)self + 1; }

/* ---- backend wait (vclock hooks) ---- */
static void prewait(int kind, void *a, long n, int64_t timeout_us)
{
	(void)n; (void)timeout_us;
	last_epfd = kind == 'e' ? *(int *)a : -1;
}
static int64_t block_hook(int64_t timeout_us)
{
	pthread_mutex_lock(&big);
	th[self].state = T_BLOCKED_WAIT; th[self].epfd = last_epfd; th[self].woke_by_timeout = 0;
	th[self].has_deadline = timeout_us >= 0;
	th[self].deadline = vclock_us + timeout_us;
	reschedule(0);
	th[self].state = T_RUNNABLE; th[self].has_deadline = 0; th[self].woke_by_timeout = 0;
	pthread_mutex_unlock(&big);
	return 0;    /* the scheduler already moved virtual time if a deadline expired */
}

void sched_install(void)
{
	struct evthread_lock_callbacks lc = { EVTHREAD_LOCK_API_VERSION, EVTHREAD_LOCKTYPE_RECURSIVE, l_alloc, l_free, l_lock, l_unlock };
	struct evthread_condition_callbacks cc = { EVTHREAD_CONDITION_API_VERSION, c_alloc, c_free, c_signal, c_wait };
	evthread_set_lock_callbacks(&lc);
	evthread_set_condition_callbacks(&cc);
	evthread_set_id_callback(id_fn);
	vclock_prewait_hook = prewait;
	vclock_block_hook = block_hook;
	for (int t = 0; t < MAXT; t++) pthread_cond_init(&th[t].cv, NULL);
}

void sched_begin(void)
{
	for (int t = 0; t < MAXT; t++) { th[t].state = T_UNUSED; th[t].fn = NULL; }
	nth = 1; cur = 0; self = 0; npoints = 0; nswitches = 0;
	th[0].state = T_RUNNABLE;
}

/* Worker threads are created once per process and reused by later executions
 * (thread creation under ASan costs milliseconds). */
static int created[MAXT];
static void *trampoline(void *p)
{
	int id = (int)(long)p;
	self = id;
	for (;;) {
		pthread_mutex_lock(&big);
		while (!(cur == self && th[self].state == T_RUNNABLE && th[self].fn)) pthread_cond_wait(&th[self].cv, &big);
		pthread_mutex_unlock(&big);
		th[id].fn(th[id].arg);
		pthread_mutex_lock(&big);
		th[id].fn = NULL;
		th[id].state = T_DONE;
		last_epfd = -1;
		reschedule(1);
		pthread_mutex_unlock(&big);
	}
	return NULL;
}

int sched_spawn(void (*fn)(void *), void *arg)
{
	int id = nth;
	if (id >= MAXT) { mc_fail("harness:too-many-threads", "max %d", MAXT); return -1; }
	struct sthread *s = &th[id];
	s->fn = fn; s->arg = arg; s->want = NULL; s->cond = NULL;
	s->signalled = 0; s->has_deadline = 0; s->woke_by_timeout = 0; s->epfd = -1;
	s->state = T_RUNNABLE;
	nth++;
	if (!created[id]) { created[id] = 1; pthread_create(&s->pt, NULL, trampoline, (void *)(long)id); }
	return id;
}

void sched_join(int id)
{
	pthread_mutex_lock(&big);
	th[self].state = T_BLOCKED_JOIN; th[self].join_target = id;
	reschedule(0);
	th[self].state = T_RUNNABLE;
	pthread_mutex_unlock(&big);
}

void sched_yield_point(void)
{
	pthread_mutex_lock(&big);
	reschedule(0);
	pthread_mutex_unlock(&big);
}

void sched_wait_until(int (*pred)(void *), void *arg)
{
	pthread_mutex_lock(&big);
	th[self].state = T_BLOCKED_PRED; th[self].pred = pred; th[self].pred_arg = arg;
	reschedule(0);
	th[self].state = T_RUNNABLE;
	pthread_mutex_unlock(&big);
}

int sched_locks_held(void)
{
	int n = 0;
	for (int i = 0; i < MAXLOCKS; i++) if (locks[i].inuse && locks[i].owner >= 0) n++;
	return n;
}

int sched_thread_idle(int id, int64_t min_deadline_us)
{
	struct sthread *s = &th[id];
	if (s->state != T_BLOCKED_WAIT || s->woke_by_timeout) return 0;
	if (fd_ready(s->epfd)) return 0;
	return !s->has_deadline || s->deadline - vclock_us >= min_deadline_us;
}

void sched_end(void)
{
	for (int t = 1; t < nth; t++)
		if (th[t].state != T_DONE) mc_fail("harness:thread-not-joined", "t%d is %s at end of execution", t, state_name(th[t].state));
	nth = 1;
}
