/* Fault injection for the locklife family (C08): failing system calls
 * (link-time --wrap, no source change) and a counting / failing allocator
 * behind event_set_mem_functions that supports several failing positions.
 *
 * Everything is passive unless the harness opens the window (sf_window(1),
 * done by its API-call bracket): only calls made by libevent while an API call
 * under test is running are counted and can be failed.  Wrappers call
 * __real_x when they do not inject.
 *
 * Link with -Wl,--wrap= for every name in SYSFAULT_WRAPS (checks.d "wrap").
 */
#ifndef VERIF_SYSFAULT_H
#define VERIF_SYSFAULT_H
#include <stddef.h>

#define SYSFAULT_LIST(X) \
	X(epoll_create1) X(epoll_ctl) X(socket) X(socketpair) X(pipe2) X(eventfd) \
	X(accept4) X(connect) X(bind) X(listen) X(getsockname) X(getpeername) X(getsockopt) X(setsockopt) \
	X(fcntl) X(ioctl) X(read) X(write) X(readv) X(writev) X(sendfile) X(sendto) X(recvfrom) \
	X(open) X(fstat) X(mmap) X(signalfd) X(sigaction)

enum {
#define X(n) SF_##n,
	SYSFAULT_LIST(X)
#undef X
	SF_N
};
extern const char *const sf_names[SF_N];

#define SF_MAX_ARMS 4
void sf_reset(void);                         /* counters to zero, nothing armed, window closed */
void sf_window(int open);                    /* nesting counter: +1 / -1 */
int  sf_window_depth(void);
int  sf_arm_sys(int which, long kth, int err); /* k-th (1-based) in-window call of `which` fails with errno err */
int  sf_arm_alloc(long nth);                 /* n-th (1-based) in-window allocation fails */
long sf_sys_count(int which);
long sf_alloc_count(void);                   /* in-window allocations (malloc/realloc) since reset */
int  sf_fired(void);                         /* number of injected failures since reset */

void  sf_alloc_install(void);                /* event_set_mem_functions */
long  sf_alloc_live(void);                   /* live library allocations */
void  sf_free(void *p);                      /* free memory handed to the user by libevent (evbuffer_readln, ...) */
void *sf_malloc(size_t n);                   /* allocate memory libevent will free (never failed, not counted as in-window) */
#endif
