#ifndef _GNU_SOURCE
#define _GNU_SOURCE
#endif
#include "vclock.h"
#include <time.h>
#include <sys/time.h>
#include <sys/epoll.h>
#include <sys/select.h>
#include <poll.h>
#include <stdio.h>
#include <stdlib.h>
#include <signal.h>

int64_t vclock_us;
long vclock_waits, vclock_blocks;
int64_t (*vclock_block_hook)(int64_t);
void (*vclock_idle_hook)(void);
void (*vclock_prewait_hook)(int, void *, long, int64_t);
void (*vclock_postwait_hook)(int);

#define MONO_BASE_S 100000LL          /* monotonic clocks start here */
#define WALL_BASE_S 1700000000LL      /* wall clock starts here      */

void vclock_reset(void) { vclock_us = 0; vclock_waits = 0; vclock_blocks = 0; }
void vclock_advance(int64_t us) { if (us > 0) vclock_us += us; }

int __wrap_clock_gettime(clockid_t clk, struct timespec *ts)
{
	int64_t base = (clk == CLOCK_REALTIME
#ifdef CLOCK_REALTIME_COARSE
	    || clk == CLOCK_REALTIME_COARSE
#endif
	    ) ? WALL_BASE_S : MONO_BASE_S;
	ts->tv_sec = base + vclock_us / 1000000;
	ts->tv_nsec = (vclock_us % 1000000) * 1000;
	return 0;
}
int __wrap_gettimeofday(struct timeval *tv, void *tz)
{
	(void)tz;
	tv->tv_sec = WALL_BASE_S + vclock_us / 1000000;
	tv->tv_usec = vclock_us % 1000000;
	return 0;
}
time_t __wrap_time(time_t *t)
{
	time_t v = WALL_BASE_S + vclock_us / 1000000;
	if (t) *t = v;
	return v;
}

static int blocked(int64_t timeout_us)
{
	int64_t adv;
	vclock_blocks++;
	if (vclock_block_hook) adv = vclock_block_hook(timeout_us);
	else if (timeout_us >= 0) adv = timeout_us;
	else {
		if (!vclock_idle_hook) { fprintf(stderr, "vclock: infinite wait with nothing ready and no idle hook\n"); abort(); }
		vclock_idle_hook();
		adv = 0;
	}
	if (adv > 0) vclock_us += adv;
	return 1;
}

int __real_epoll_pwait2(int, struct epoll_event *, int, const struct timespec *, const sigset_t *);
int __real_epoll_wait(int, struct epoll_event *, int, int);
int __real_poll(struct pollfd *, nfds_t, int);
int __real_select(int, fd_set *, fd_set *, fd_set *, struct timeval *);

int __wrap_epoll_pwait2(int epfd, struct epoll_event *ev, int max, const struct timespec *to, const sigset_t *ss)
{
	static const struct timespec zero = {0, 0};
	int64_t t = to ? (int64_t)to->tv_sec * 1000000 + (to->tv_nsec + 999) / 1000 : -1;
	vclock_waits++;
	if (vclock_prewait_hook) vclock_prewait_hook('e', &epfd, 0, t);
	int r = __real_epoll_pwait2(epfd, ev, max, &zero, ss);
	if (r == 0 && t != 0 && blocked(t)) r = __real_epoll_pwait2(epfd, ev, max, &zero, ss);
	if (vclock_postwait_hook) vclock_postwait_hook(r);
	return r;
}
int __wrap_epoll_wait(int epfd, struct epoll_event *ev, int max, int ms)
{
	int64_t t = ms < 0 ? -1 : (int64_t)ms * 1000;
	vclock_waits++;
	if (vclock_prewait_hook) vclock_prewait_hook('e', &epfd, 0, t);
	int r = __real_epoll_wait(epfd, ev, max, 0);
	if (r == 0 && t != 0 && blocked(t)) r = __real_epoll_wait(epfd, ev, max, 0);
	if (vclock_postwait_hook) vclock_postwait_hook(r);
	return r;
}
int __wrap_poll(struct pollfd *fds, nfds_t n, int ms)
{
	int64_t t = ms < 0 ? -1 : (int64_t)ms * 1000;
	vclock_waits++;
	if (vclock_prewait_hook) vclock_prewait_hook('p', fds, (long)n, t);
	int r = __real_poll(fds, n, 0);
	if (r == 0 && t != 0 && blocked(t)) r = __real_poll(fds, n, 0);
	if (vclock_postwait_hook) vclock_postwait_hook(r);
	return r;
}
int __wrap_select(int n, fd_set *r, fd_set *w, fd_set *e, struct timeval *tv)
{
	int64_t t = tv ? (int64_t)tv->tv_sec * 1000000 + tv->tv_usec : -1;
	struct timeval zero = {0, 0};
	fd_set sr, sw, se, *a[3] = { r, w, e };
	size_t bytes = ((size_t)(n > 0 ? n : 1) + 63) / 64 * 8;   /* libevent allocates fd_sets by size */
	if (bytes > sizeof(fd_set)) bytes = sizeof(fd_set);
	vclock_waits++;
	if (vclock_prewait_hook) vclock_prewait_hook('s', a, n, t);
	/* select overwrites its sets; keep copies of the significant prefix for the retry */
	if (r) __builtin_memcpy(&sr, r, bytes);
	if (w) __builtin_memcpy(&sw, w, bytes);
	if (e) __builtin_memcpy(&se, e, bytes);
	int res = __real_select(n, r, w, e, &zero);
	if (res == 0 && t != 0 && blocked(t)) {
		if (r) __builtin_memcpy(r, &sr, bytes);
		if (w) __builtin_memcpy(w, &sw, bytes);
		if (e) __builtin_memcpy(e, &se, bytes);
		zero.tv_sec = 0; zero.tv_usec = 0;
		res = __real_select(n, r, w, e, &zero);
	}
	if (vclock_postwait_hook) vclock_postwait_hook(res);
	return res;
}
